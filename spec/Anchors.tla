------------------------------- MODULE Anchors -------------------------------
(* Ground truth that does not come from the repository under test: the     *)
(* published perft numbers (chessprogramming.org "Perft Results").  TLC    *)
(* evaluates these ASSUMEs when the module is loaded; a failure means the  *)
(* specification - not the library - is wrong.                             *)
EXTENDS Text, FiniteSetsExt

(* Perft by folding over the set of <<move, successor>> pairs: elements of   *)
(* an enumerated set are concrete values, whereas TLC does not cache lazy   *)
(* operator arguments inside RECURSIVE operators (each access to the        *)
(* position would re-derive every ancestor).  FoldSet has a Java override.  *)
RECURSIVE Perft(_, _)
Perft(pos, d) ==
  IF d = 0 THEN 1
  ELSE IF d = 1 THEN Cardinality(LegalMoves(pos))
  ELSE FoldSet(LAMBDA pr, acc : acc + Perft(pr[2], d - 1), 0,
               {<<m, Apply(pos, m)>> : m \in LegalMoves(pos)})
PerftIs(root, d, n) == \A p \in {root} : Perft(p, d) = n

CONSTANT Deep      \* FALSE: shallow anchors (seconds); TRUE: adds the deeper ones (minutes)

Kiwipete == ReadFen("r3k2r/p1ppqpb1/bn2pnp1/3PN3/1p2P3/2N2Q1p/PPPBBPPP/R3K2R w KQkq - 0 1")
Cpw3 == ReadFen("8/2p5/3p4/KP5r/1R3p1k/8/4P1P1/8 w - - 0 1")
Cpw4 == ReadFen("r3k2r/Pppp1ppp/1b3nbN/nP6/BBP1P3/q4N2/Pp1P2PP/R2Q1RK1 w kq - 0 1")
Cpw5 == ReadFen("rnbq1k1r/pp1Pbppp/2p5/8/2B5/8/PPP1NnPP/RNBQK2R w KQ - 1 8")
Cpw6 == ReadFen("r4rk1/1pp1qppp/p1np1n2/2b1p1B1/2B1P1b1/P1NP1N2/1PP1QPPP/R4RK1 w - - 0 10")

ASSUME ReadFen(WriteFen(StartPos)) = StartPos
ASSUME WriteFen(StartPos) = "rnbqkbnr/pppppppp/8/8/8/8/PPPPPPPP/RNBQKBNR w KQkq - 0 1"
ASSUME ReadFen(WriteFen(Kiwipete)) = Kiwipete
ASSUME Valid(StartPos) /\ Valid(Kiwipete) /\ Valid(Cpw3) /\ Valid(Cpw4) /\ Valid(Cpw5) /\ Valid(Cpw6)

ASSUME PerftIs(StartPos, 1, 20)
ASSUME PerftIs(StartPos, 2, 400)
ASSUME PerftIs(Kiwipete, 1, 48)
ASSUME PerftIs(Kiwipete, 2, 2039)
ASSUME PerftIs(Cpw3, 1, 14)
ASSUME PerftIs(Cpw3, 2, 191)
ASSUME PerftIs(Cpw3, 3, 2812)
ASSUME PerftIs(Cpw4, 1, 6)
ASSUME PerftIs(Cpw4, 2, 264)
ASSUME PerftIs(Cpw5, 1, 44)
ASSUME PerftIs(Cpw5, 2, 1486)
ASSUME PerftIs(Cpw6, 1, 46)
ASSUME PerftIs(Cpw6, 2, 2079)
ASSUME PerftIs(Mirror(Cpw4), 2, 264)

ASSUME Deep => PerftIs(StartPos, 3, 8902)
ASSUME Deep => PerftIs(Cpw3, 4, 43238)
ASSUME Deep => PerftIs(Cpw4, 3, 9467)
ASSUME Deep => PerftIs(Cpw5, 3, 62379)
ASSUME Deep => PerftIs(Kiwipete, 3, 97862)

VARIABLE x
Init == x = 0
Next == UNCHANGED x
Spec == Init /\ [][Next]_x
=============================================================================
