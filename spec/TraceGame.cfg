SPECIFICATION TGSpec
CONSTANT FiftyLimit = 100
POSTCONDITION Accepted
CHECK_DEADLOCK FALSE
