----------------------------- MODULE MoveGenIter -----------------------------
(***************************************************************************)
(* The move iterator's contract (what a caller may rely on), stated over   *)
(* an abstract state: the set of moves still owed, the current destination *)
(* mask and whether the iteration is still pristine.                       *)
(*                                                                         *)
(* Call grammar covered by the contract (property C14): removals happen    *)
(* beforehand (before the first move is drawn); a mask is set and then     *)
(* drawn to exhaustion before another mask is set; lengths may be asked    *)
(* at any moment.                                                          *)
(***************************************************************************)
EXTENDS Integers, Sequences, FiniteSets

CONSTANT AllSquares      \* the universe of destination squares

(* moves are records [f, t, p] as in module Rules *)
Avail(remaining, mask) == {m \in remaining : m.t \in mask}

VARIABLES remaining, mask, pristine, fresh, out
ivars == <<remaining, mask, pristine, fresh, out>>

INew(legal) ==
  /\ remaining' = legal /\ mask' = AllSquares /\ pristine' = TRUE /\ fresh' = TRUE
  /\ out' = [op |-> "new"]

(* a mask may be set when nothing has been drawn under the current one, or  *)
(* when the current one is exhausted                                        *)
CanSetMask == fresh \/ Avail(remaining, mask) = {}
ISetMask(M) ==
  /\ CanSetMask
  /\ mask' = M /\ fresh' = TRUE /\ UNCHANGED <<remaining, pristine>>
  /\ out' = [op |-> "setmask"]

(* next: any move still owed under the mask - the order is the            *)
(* implementation's business - or nothing iff there is none               *)
INextSome(m) ==
  /\ m \in Avail(remaining, mask)
  /\ remaining' = remaining \ {m} /\ pristine' = FALSE /\ fresh' = FALSE /\ UNCHANGED mask
  /\ out' = [op |-> "next", ret |-> m]
INextNone ==
  /\ Avail(remaining, mask) = {}
  /\ UNCHANGED <<remaining, mask, pristine>> /\ fresh' = FALSE
  /\ out' = [op |-> "next", ret |-> "none"]

(* a consuming adaptor (count, last, fold, for_each): everything still owed under the mask is drawn at once; *)
(* it reports how many moves that were and, for all but count, the last of them (any of them: order is open)  *)
IDrain(cnt, hasLast, lastSet) ==        \* lastSet: the reported last move as a set of at most one element
  /\ cnt = Cardinality(Avail(remaining, mask))
  /\ hasLast => (IF Avail(remaining, mask) = {} THEN lastSet = {} ELSE (lastSet # {} /\ lastSet \subseteq Avail(remaining, mask)))
  /\ remaining' = remaining \ Avail(remaining, mask) /\ pristine' = FALSE /\ fresh' = FALSE /\ UNCHANGED mask
  /\ out' = [op |-> "drain", ret |-> cnt]

(* len (and size_hint): exactly the number of moves still to come under the mask *)
ILen ==
  /\ UNCHANGED <<remaining, mask, pristine, fresh>>
  /\ out' = [op |-> "len", ret |-> Cardinality(Avail(remaining, mask))]

IRemoveMask(M) ==
  /\ pristine
  /\ remaining' = {m \in remaining : m.t \notin M}
  /\ UNCHANGED <<mask, pristine, fresh>>
  /\ out' = [op |-> "removemask"]

(* remove_move(x): x goes; every move with another source or destination   *)
(* stays; promotion siblings of x (same source and destination) may go or  *)
(* stay - the contract does not say                                        *)
Siblings(S, x) == {m \in S : m.f = x.f /\ m.t = x.t /\ m # x}
IRemoveMove(x, gone) ==
  /\ pristine
  /\ gone \subseteq Siblings(remaining, x)
  /\ remaining' = (remaining \ {x}) \ gone
  /\ UNCHANGED <<mask, pristine, fresh>>
  /\ out' = [op |-> "removemove"]
=============================================================================
