------------------------------ MODULE TraceBuild ------------------------------
(***************************************************************************)
(* Trace validation of position construction (C07): arbitrary builder      *)
(* states and arbitrary text are handed to the library; every call logs    *)
(* the input, the outcome (ok / err / panic), the accepted position and    *)
(* the outcome of exercising it (move generation, status, rendering,       *)
(* applying every generated move, null move, legality queries).            *)
(*                                                                         *)
(*  - the conversion never panics;                                         *)
(*  - it MUST succeed when the input describes a valid chess position;     *)
(*  - it may succeed ONLY for a position that satisfies Necessary, and     *)
(*    that position is the one described by the input (the en-passant      *)
(*    field may be dropped when no capture is possible);                   *)
(*  - everything it accepts is exercised without panic.                    *)
(* Acceptance of positions that satisfy Necessary but are not valid chess  *)
(* positions (17 men, pawns on the back rank ...) is left open.            *)
(***************************************************************************)
EXTENDS Text, Json, IOUtils

Rec  == ndJsonDeserialize(IOEnv.TRACE)
PROP == IOEnv.PROP      \* "C07": construction attempts are judged;  "C06": builder text is judged
VARIABLE l

SeqSet(q) == {q[i] : i \in 1..Len(q)}
BoardOf(s) == [q \in Squares |-> Ch(s, q + 1)]

(* input given through the builder: placement, side, claimed rights and an  *)
(* en-passant FILE (-1 = none), which denotes the passed-over square on     *)
(* rank 6 (White to move) or rank 3 (Black to move)                         *)
InEp(r) == IF r.in_epfile = -1 THEN NoSq ELSE Sq(r.in_epfile, IF r.in_stm = "w" THEN 5 ELSE 2)
InPos(r) == [b |-> BoardOf(r.in_sq), stm |-> r.in_stm, cr |-> SeqSet(r.in_cr), ep |-> InEp(r)]

OutEp(r)  == IF r.ep_raw = -1 THEN NoSq ELSE r.ep_raw + (IF r.stm = "w" THEN 8 ELSE -8)
OutPos(r) == [b |-> BoardOf(r.sq), stm |-> r.stm, cr |-> SeqSet(r.cr), ep |-> OutEp(r)]

KingsOK(b) == Count(b, "K") = 1 /\ Count(b, "k") = 1

SameAsInput(I, A) ==
  /\ A.b = I.b /\ A.stm = I.stm /\ A.cr = I.cr
  /\ A.ep \in {I.ep, NoSq}

Judge(r, I, known) ==
  /\ r.ret # "panic"
  /\ (known /\ KingsOK(I.b) /\ Valid(I)) => r.ret = "ok"                  \* every valid position is accepted
  /\ (r.ret = "ok") =>
        LET A == OutPos(r)
        IN /\ KingsOK(A.b) /\ Necessary(A)                                \* only playable positions
           /\ known => SameAsInput(I, A)
           /\ (known /\ KingsOK(I.b) /\ Valid(I) /\ EpCaptures(I) # {}) => A.ep = I.ep   \* a usable en-passant right is kept
           /\ r.exercise = "safe"

TBuilder ==
  /\ l <= Len(Rec) /\ Rec[l].event = "Build" /\ l' = l + 1
  /\ (PROP = "C07") => Judge(Rec[l], InPos(Rec[l]), TRUE) = TRUE

(* text: wellformed texts were produced by the harness from a builder state   *)
(* with a standard writer (fields as given in the in_ fields), else noise     *)
TText ==
  /\ l <= Len(Rec) /\ Rec[l].event = "Parse" /\ l' = l + 1
  /\ LET r == Rec[l]
     IN IF PROP = "C06"
        THEN \* standard text of a valid position is understood: accepted, and as the position it describes
             (IF r.wellformed
              THEN LET I == [InPos(r) EXCEPT !.ep = ReadFen(r.text).ep]
                   IN (KingsOK(I.b) /\ Valid(I)) => (r.ret = "ok" /\ SameAsInput(I, OutPos(r)))
              ELSE TRUE) = TRUE
        ELSE IF PROP # "C07" THEN TRUE
        ELSE IF r.wellformed
        THEN (/\ ReadFen(r.text) = [InPos(r) EXCEPT !.ep = ReadFen(r.text).ep]     \* the text says what the harness meant
              /\ Judge(r, [InPos(r) EXCEPT !.ep = ReadFen(r.text).ep], TRUE)) = TRUE
        ELSE Judge(r, StartPos, FALSE) = TRUE

(* The unvalidated builder as a data structure: what was put in comes out again through the   *)
(* getters and the index operator, it renders as the standard FEN of that state (whatever the *)
(* state - no validity is required) and the rendering parses back to a builder that renders   *)
(* identically (C06, last clause).                                                            *)
BuilderEpPawnSq(r) == IF r.in_epfile = -1 THEN NoSq ELSE Sq(r.in_epfile, IF r.in_stm = "w" THEN 4 ELSE 3)
TBuilderState ==
  /\ l <= Len(Rec) /\ Rec[l].event = "BuilderState" /\ l' = l + 1
  /\ LET r == Rec[l]
         I == InPos(r)
     IN (PROP = "C06") =>
          (/\ r.text = FenWith(I, I.ep, " 0 1")
           /\ r.text2 = r.text
           /\ r.g_stm = r.in_stm /\ SeqSet(r.g_cr) = SeqSet(r.in_cr)
           /\ r.g_ep = BuilderEpPawnSq(r)
           /\ r.g_sq = r.in_sq) = TRUE

TBInit == l = 1
TBNext == TBuilder \/ TText \/ TBuilderState
TBSpec == TBInit /\ [][TBNext]_l
Accepted ==
  LET d == TLCGet("stats").diameter - 1
  IN IF d = Len(Rec) THEN PrintT(<<"TRACE-ACCEPTED", d>>)
     ELSE PrintT(<<"TRACE-REJECTED-AT-LINE", d + 1, "of", Len(Rec)>>) /\ FALSE
=============================================================================
