------------------------------ MODULE CacheTable ------------------------------
(***************************************************************************)
(* The hash-indexed cache: a table of size 2^k in which every hash has ONE *)
(* slot.  WHICH slot is not specified (the property speaks of "that        *)
(* hash's slot"; the library happens to take the low bits).  A 64-bit hash *)
(* is therefore modelled as the pair <<tag, idx>>: idx is the slot, tag    *)
(* tells the hashes of one slot apart; hash 0 is <<ZeroTag, 0>>.  The      *)
(* binding never computes idx from the hash: the harness OBSERVES which    *)
(* hashes share a slot (write a, write b, is a gone?) on a scratch table   *)
(* and picks / labels its hashes accordingly.  Exhaustive configs use      *)
(* small integer tags, recorded traces carry the hash itself as the tag.   *)
(*                                                                         *)
(* Operational state: slot, a function from the TOUCHED indices to         *)
(* [h, v]; an untouched slot behaves as [h |-> <<ZeroTag, 0>>, v |-> def]. *)
(* Declarative reading: the answer of get(h) as a function of the log of   *)
(* operations (GetDecl).  TLC checks that both agree (MCCache).            *)
(***************************************************************************)
EXTENDS Integers, Sequences, FiniteSets

CONSTANTS ZeroTag,      \* the tag of hash 0 (0 in exhaustive configs, "0" in traces)
          Key(_)        \* what a caller's predicate looks at in a stored value (the value itself, or - when the
                        \* value type's equality is coarser than identity - the part its comparisons see)

IsPow2(n) == \E k \in 0..30 : n = 2^k

Untouched(def) == [h |-> <<ZeroTag, 0>>, v |-> def]
SlotOf(slot, def, i) == IF i \in DOMAIN slot THEN slot[i] ELSE Untouched(def)

(* predicates a caller may pass to replace_if, as data *)
PredHolds(pred, cur) ==
  CASE pred.k = "always" -> TRUE
    [] pred.k = "never"  -> FALSE
    [] pred.k = "panic"  -> FALSE      \* a predicate that unwinds has not answered "true"
    [] pred.k = "eq"     -> Key(cur) = pred.x
    [] pred.k = "lt"     -> Key(cur) < pred.x
    [] pred.k = "ge"     -> Key(cur) >= pred.x

(* get(h): a value only if the slot holds exactly that hash *)
GetOp(slot, def, h) ==
  LET e == SlotOf(slot, def, h[2]) IN IF e.h = h THEN <<"some", e.v>> ELSE <<"none">>

Put(slot, h, v) == [i \in DOMAIN slot \cup {h[2]} |-> IF i = h[2] THEN [h |-> h, v |-> v] ELSE slot[i]]
AddOp(slot, h, v) == Put(slot, h, v)
ReplaceIfOp(slot, def, h, v, pred) ==
  IF PredHolds(pred, SlotOf(slot, def, h[2]).v) THEN Put(slot, h, v) ELSE slot

(* ------------------------------ declarative --------------------------- *)
(* log entries: [op |-> "add"|"replace_if", h, v, pred]                    *)
RECURSIVE SlotDecl(_, _, _, _)
SlotDecl(log, n, def, i) ==      \* content of slot i after the first n operations
  IF n = 0 THEN Untouched(def)
  ELSE LET x    == log[n]
           prev == SlotDecl(log, n - 1, def, i)
       IN IF x.h[2] # i THEN prev
          ELSE IF x.op = "add" THEN [h |-> x.h, v |-> x.v]
          ELSE IF PredHolds(x.pred, prev.v) THEN [h |-> x.h, v |-> x.v]
          ELSE prev
GetDecl(log, def, h) ==
  LET e == SlotDecl(log, Len(log), def, h[2]) IN IF e.h = h THEN <<"some", e.v>> ELSE <<"none">>
=============================================================================
