SPECIFICATION TBSpec
POSTCONDITION Accepted
CHECK_DEADLOCK FALSE
