------------------------------- MODULE MCText -------------------------------
(* The complete finite domain of coordinate text: all 20480 move values and  *)
(* 64 squares with their renderings, printed (one record per source square) *)
(* for comparison with the library's Display / FromStr.                     *)
EXTENDS Text, Json

VARIABLES f, done
Init == f \in Squares /\ done = FALSE
URec(s) == [f |-> s, name |-> SqName(s),
            mv |-> {<<t, p, Uci(Mv(s, t, p))>> : t \in Squares, p \in PromoKinds \cup {NoPromo}}]
Next == ~done /\ PrintT("UREC " \o ToJson(URec(f))) /\ done' = TRUE /\ f' = f
Spec == Init /\ [][Next]_<<f, done>>

(* spec-level sanity: renderings are pairwise distinct and 4 or 5 characters long *)
ASSUME \A s \in Squares : Len(SqName(s)) = 2
ASSUME Cardinality({SqName(s) : s \in Squares}) = 64
=============================================================================
