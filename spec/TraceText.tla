------------------------------ MODULE TraceText ------------------------------
(***************************************************************************)
(* Trace validation of the text parsers on arbitrary input.                *)
(*  PROP = "C13": ChessMove::from_str / Square::from_str never panic and a *)
(*                success renders to a prefix of the input.                *)
(*  PROP = "C12": ChessMove::from_san never panics, returns only moves     *)
(*                legal in the given position, returns exactly m for every *)
(*                admissible spelling of m, and rejects texts that fit no  *)
(*                legal move or more than one.                             *)
(***************************************************************************)
EXTENDS San, Json, IOUtils

Rec  == ndJsonDeserialize(IOEnv.TRACE)
PROP == IOEnv.PROP
VARIABLES l, pos, legal, table, rejects
ttvars == <<l, pos, legal, table, rejects>>

SeqSet(q) == {q[i] : i \in 1..Len(q)}
EvEp(r)  == IF r.ep_raw = -1 THEN NoSq ELSE r.ep_raw + (IF r.stm = "w" THEN 8 ELSE -8)
EvPos(r) == [b |-> [s \in Squares |-> Ch(r.sq, s + 1)], stm |-> r.stm, cr |-> SeqSet(r.cr), ep |-> EvEp(r)]
MvOf(q)  == Mv(q[1], q[2], q[3])
IsEv(e)  == l <= Len(Rec) /\ Rec[l].event = e /\ l' = l + 1

(* a new position for the SAN events that follow: its legal moves and the   *)
(* table text -> move of all admissible spellings are computed once         *)
TSanPos ==
  /\ IsEv("SanPos")
  /\ LET p  == EvPos(Rec[l])
         ms == IF Valid(p) THEN LegalMoves(p) ELSE {}
     IN /\ pos' = p /\ legal' = ms
        /\ table' = IF PROP = "C12" /\ Valid(p)
                    THEN UNION {{<<s, m>> : s \in SanSpellings(p, m, ms)} : m \in ms} ELSE {}
        /\ rejects' = IF PROP = "C12" /\ Valid(p) THEN SanRejects(p, ms) ELSE {}

TSan ==
  /\ IsEv("San")
  /\ LET r == Rec[l]
     IN (PROP = "C12" /\ Valid(pos)) =>
          (/\ r.st # "panic"
           /\ (r.st = "ok") => MvOf(r.mv) \in legal
           /\ \A e \in table : e[1] = r.text => (r.st = "ok" /\ MvOf(r.mv) = e[2])
           /\ (r.text \in rejects) => r.st = "err") = TRUE
  /\ UNCHANGED <<pos, legal, table, rejects>>

TUciMove ==
  /\ IsEv("UciMove")
  /\ LET r == Rec[l]
     IN (PROP = "C13") =>
          (/\ r.st # "panic"
           /\ (r.st = "ok") => IsPrefixStr(Uci(MvOf(r.mv)), r.text)) = TRUE
  /\ UNCHANGED <<pos, legal, table, rejects>>

TUciSquare ==
  /\ IsEv("UciSquare")
  /\ LET r == Rec[l]
     IN (PROP = "C13") =>
          (/\ r.st # "panic"
           /\ (r.st = "ok") => IsPrefixStr(SqName(r.sqi), r.text)) = TRUE
  /\ UNCHANGED <<pos, legal, table, rejects>>

TTInit == l = 1 /\ pos = StartPos /\ legal = {} /\ table = {} /\ rejects = {}
TTNext == TSanPos \/ TSan \/ TUciMove \/ TUciSquare
TTSpec == TTInit /\ [][TTNext]_ttvars
Accepted ==
  LET d == TLCGet("stats").diameter - 1
  IN IF d = Len(Rec) THEN PrintT(<<"TRACE-ACCEPTED", d>>)
     ELSE PrintT(<<"TRACE-REJECTED-AT-LINE", d + 1, "of", Len(Rec)>>) /\ FALSE
=============================================================================
