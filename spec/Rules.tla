-------------------------------- MODULE Rules --------------------------------
(***************************************************************************)
(* The laws of chess over an abstract position, written from the FIDE      *)
(* Laws (Art. 3) with a mailbox board and ray walking: a move is legal iff *)
(* it is a piece movement of Art. 3 and the mover's king is not attacked   *)
(* afterwards.  Nothing here is shaped like the implementation (no         *)
(* bitboards, pin masks, check masks or incremental state).                *)
(*                                                                         *)
(* A position is [b, stm, cr, ep]:                                         *)
(*   b   : 0..63 -> piece letter (FEN letters, "." = empty)                *)
(*   stm : "w" | "b"                                                       *)
(*   cr  : subset of {"K","Q","k","q"}                                     *)
(*   ep  : the square passed over by the pawn that just made a double push *)
(*         (the FEN convention), or NoSq                                   *)
(* A move is [f, t, p]: from, to, promotion in {"-","n","b","r","q"}.      *)
(***************************************************************************)
EXTENDS Geometry

WhiteMen == {"P","N","B","R","Q","K"}
BlackMen == {"p","n","b","r","q","k"}
Men      == WhiteMen \cup BlackMen
Empty    == "."
Kinds    == {"p","n","b","r","q","k"}
PromoKinds == {"q","r","b","n"}
NoPromo  == "-"

ColorOf(p) == IF p \in WhiteMen THEN "w" ELSE IF p \in BlackMen THEN "b" ELSE "-"
Upper == [k \in Kinds |-> CASE k = "p" -> "P" [] k = "n" -> "N" [] k = "b" -> "B"
                             [] k = "r" -> "R" [] k = "q" -> "Q" [] k = "k" -> "K"]
Pc(c, k) == IF c = "w" THEN Upper[k] ELSE k
Kind(p) == CASE p \in {"P","p"} -> "p" [] p \in {"N","n"} -> "n" [] p \in {"B","b"} -> "b"
             [] p \in {"R","r"} -> "r" [] p \in {"Q","q"} -> "q" [] p \in {"K","k"} -> "k"
             [] OTHER -> "-"
SwapCase(p) == IF p = Empty THEN Empty ELSE Pc(Other(ColorOf(p)), Kind(p))

Mv(f, t, p) == [f |-> f, t |-> t, p |-> p]
AllMoves == {Mv(f, t, p) : f \in Squares, t \in Squares, p \in PromoKinds \cup {NoPromo}}

Occ(b)       == {s \in Squares : b[s] # Empty}
MenOf(b, c)  == {s \in Squares : ColorOf(b[s]) = c}
Where(b, p)  == {s \in Squares : b[s] = p}
KingSq(b, c) == CHOOSE s \in Squares : b[s] = Pc(c, "k")

(***************************************************************************)
(* Attacks.  Attackers(b, s, c): the squares holding men of colour c that  *)
(* attack square s: leapers and pawns by table, sliders as "the first man  *)
(* met on each of the eight rays from s".                                  *)
(***************************************************************************)
SliderOn(b, occ, s, d, c) ==
  LET t == FirstOn(occ, s, d)
  IN IF t = NoSq THEN {}
     ELSE IF d \in RookDirs
          THEN (IF b[t] \in {Pc(c,"r"), Pc(c,"q")} THEN {t} ELSE {})
          ELSE (IF b[t] \in {Pc(c,"b"), Pc(c,"q")} THEN {t} ELSE {})

SliderAttackers(b, s, c) ==
  LET occ == Occ(b) IN UNION {SliderOn(b, occ, s, d, c) : d \in AllDirs}

Attackers(b, s, c) ==
       {t \in KnightT[s] : b[t] = Pc(c,"n")}
  \cup {t \in KingT[s]   : b[t] = Pc(c,"k")}
  \cup {t \in PawnAtt(Other(c), s) : b[t] = Pc(c,"p")}
  \cup SliderAttackers(b, s, c)

Attacked(b, s, c) ==
  \/ \E t \in KnightT[s] : b[t] = Pc(c,"n")
  \/ \E t \in KingT[s]   : b[t] = Pc(c,"k")
  \/ \E t \in PawnAtt(Other(c), s) : b[t] = Pc(c,"p")
  \/ LET occ == Occ(b) IN \E d \in AllDirs : SliderOn(b, occ, s, d, c) # {}

InCheck(b, c)  == Attacked(b, KingSq(b, c), Other(c))
Checkers(pos)  == Attackers(pos.b, KingSq(pos.b, pos.stm), Other(pos.stm))

(***************************************************************************)
(* Absolutely pinned men of the side to move, declaratively: a man (not    *)
(* the king) is pinned iff taking it off the board strictly enlarges the   *)
(* set of enemy sliders attacking the own king.                            *)
(***************************************************************************)
PinnedOf(b, c) ==
  LET k    == KingSq(b, c)
      base == SliderAttackers(b, k, Other(c))
  IN {t \in MenOf(b, c) \ {k} :
        SliderAttackers([b EXCEPT ![t] = Empty], k, Other(c)) \ base # {}}
Pinned(pos) == PinnedOf(pos.b, pos.stm)

(* The same set computed by walking outwards from the king: the first man on a *)
(* ray is the king's own and the next man beyond it is an enemy slider moving  *)
(* along that ray.  Cheaper; MCBoard.Lemma1 asserts it equals the declarative  *)
(* definition on every expanded state.                                         *)
PinnedRay(b, c) ==
  LET k   == KingSq(b, c)
      occ == Occ(b)
      on(d) == LET t == FirstOn(occ, k, d)
               IN IF t = NoSq \/ ColorOf(b[t]) # c THEN {}
                  ELSE IF SliderOn(b, occ, t, d, Other(c)) # {} THEN {t} ELSE {}
  IN UNION {on(d) : d \in AllDirs}

(***************************************************************************)
(* Piece movement (Art. 3.2 - 3.8).                                        *)
(***************************************************************************)
WithPromos(c, s, t) ==
  IF RankOf(t) = LastRank(c) THEN {Mv(s, t, k) : k \in PromoKinds} ELSE {Mv(s, t, NoPromo)}

PawnMoves(pos, s) ==
  LET c == pos.stm
      b == pos.b
      caps == {t \in PawnAtt(c, s) : ColorOf(b[t]) = Other(c) \/ t = pos.ep}
  IN UNION {WithPromos(c, s, t) : t \in PawnPush(c, s, Occ(b)) \cup caps}

PieceTargets(b, s) ==
  LET k == Kind(b[s])
  IN CASE k = "n" -> KnightT[s]
       [] k = "k" -> KingT[s]
       [] k = "r" -> RookAtt(s, Occ(b))
       [] k = "b" -> BishopAtt(s, Occ(b))
       [] k = "q" -> RookAtt(s, Occ(b)) \cup BishopAtt(s, Occ(b))

PieceMoves(pos, s) ==
  {Mv(s, t, NoPromo) : t \in {t \in PieceTargets(pos.b, s) : ColorOf(pos.b[t]) # pos.stm}}

PseudoMoves(pos) ==
  UNION {IF Kind(pos.b[s]) = "p" THEN PawnMoves(pos, s) ELSE PieceMoves(pos, s)
         : s \in MenOf(pos.b, pos.stm)}

IsCastle(pos, m) == Kind(pos.b[m.f]) = "k" /\ Abs(FileOf(m.t) - FileOf(m.f)) = 2
IsEP(pos, m)     == Kind(pos.b[m.f]) = "p" /\ m.t = pos.ep /\ FileOf(m.f) # FileOf(m.t)
IsCapture(pos, m) == pos.b[m.t] # Empty \/ IsEP(pos, m)
IsDouble(pos, m) == Kind(pos.b[m.f]) = "p" /\ Abs(RankOf(m.t) - RankOf(m.f)) = 2
EpVictimSq(m)    == Sq(FileOf(m.t), RankOf(m.f))

(* Castling (Art. 3.8.2): right present, squares between king and rook      *)
(* empty, king's start, transit and target squares not attacked.            *)
RightK(c) == IF c = "w" THEN "K" ELSE "k"
RightQ(c) == IF c = "w" THEN "Q" ELSE "q"

Castles(pos) ==
  LET b == pos.b
      c == pos.stm
      r == BackRank(c)
      e == Sq(4, r)
      safe(s) == ~Attacked(b, s, Other(c))
      ks == IF /\ RightK(c) \in pos.cr
               /\ b[Sq(5,r)] = Empty /\ b[Sq(6,r)] = Empty
               /\ safe(e) /\ safe(Sq(5,r)) /\ safe(Sq(6,r))
            THEN {Mv(e, Sq(6,r), NoPromo)} ELSE {}
      qs == IF /\ RightQ(c) \in pos.cr
               /\ b[Sq(3,r)] = Empty /\ b[Sq(2,r)] = Empty /\ b[Sq(1,r)] = Empty
               /\ safe(e) /\ safe(Sq(3,r)) /\ safe(Sq(2,r))
            THEN {Mv(e, Sq(2,r), NoPromo)} ELSE {}
  IN ks \cup qs

(* Placement after a move. *)
BoardAfter(pos, m) ==
  LET b == pos.b
      c == pos.stm
      placed == IF m.p = NoPromo THEN b[m.f] ELSE Pc(c, m.p)
      b1 == [b EXCEPT ![m.f] = Empty, ![m.t] = placed]
  IN IF IsEP(pos, m) THEN [b1 EXCEPT ![EpVictimSq(m)] = Empty]
     ELSE IF IsCastle(pos, m) THEN
        LET r  == RankOf(m.f)
            rf == IF FileOf(m.t) = 6 THEN 7 ELSE 0
            rt == IF FileOf(m.t) = 6 THEN 5 ELSE 3
        IN [b1 EXCEPT ![Sq(rf, r)] = Empty, ![Sq(rt, r)] = Pc(c, "r")]
     ELSE b1

LegalMoves(pos) ==
  {m \in PseudoMoves(pos) : ~InCheck(BoardAfter(pos, m), pos.stm)} \cup Castles(pos)

(***************************************************************************)
(* Successor.  Rights attached to the six home squares are lost when a man *)
(* leaves or a man is captured there.  The en-passant field is what the    *)
(* rules leave open: it MUST be the passed-over square when a legal        *)
(* en-passant capture exists after a double push, MUST be NoSq unless the  *)
(* move is a double push landing beside an enemy pawn, and MAY be either   *)
(* in between (the adjacent pawn cannot legally capture).                  *)
(***************************************************************************)
HomeRight == [s \in Squares |-> CASE s = 0 -> {"Q"} [] s = 7 -> {"K"} [] s = 4 -> {"K","Q"}
                                  [] s = 56 -> {"q"} [] s = 63 -> {"k"} [] s = 60 -> {"k","q"}
                                  [] OTHER -> {}]

PassedOver(pos, m) == Sq(FileOf(m.f), RankOf(m.f) + Fwd(pos.stm))

ApplyEp(pos, m, e) ==
  [b |-> BoardAfter(pos, m), stm |-> Other(pos.stm),
   cr |-> (pos.cr \ HomeRight[m.f]) \ HomeRight[m.t], ep |-> e]

BesidePawns(pos, m) ==   \* enemy pawns standing beside the destination
  {t \in Squares : RankOf(t) = RankOf(m.t) /\ Abs(FileOf(t) - FileOf(m.t)) = 1
                   /\ pos.b[t] = Pc(Other(pos.stm), "p")}

EpCaptures(pos) ==       \* the legal en-passant captures of a position
  {m \in LegalMoves(pos) : IsEP(pos, m)}

EpAllowed(pos, m) ==
  IF ~IsDouble(pos, m) \/ BesidePawns(pos, m) = {} THEN {NoSq}
  ELSE LET e == PassedOver(pos, m)
       IN IF EpCaptures(ApplyEp(pos, m, e)) # {} THEN {e} ELSE {e, NoSq}

Succ(pos, m)  == {ApplyEp(pos, m, e) : e \in EpAllowed(pos, m)}
(* The library's documented choice: record on pseudo-legal capturability. *)
Apply(pos, m) ==
  ApplyEp(pos, m, IF IsDouble(pos, m) /\ BesidePawns(pos, m) # {} THEN PassedOver(pos, m) ELSE NoSq)

(***************************************************************************)
(* Status and the null move.                                               *)
(***************************************************************************)
StatusOf(pos, ms) ==
  IF ms # {} THEN "Ongoing"
  ELSE IF InCheck(pos.b, pos.stm) THEN "Checkmate" ELSE "Stalemate"
Status(pos) == StatusOf(pos, LegalMoves(pos))

NullAllowed(pos) == ~InCheck(pos.b, pos.stm)
NullMove(pos)    == [pos EXCEPT !.stm = Other(pos.stm), !.ep = NoSq]

(***************************************************************************)
(* Validity.  Valid is the quantifier domain of the move-generation        *)
(* properties; Necessary is what every accepted position must satisfy.     *)
(***************************************************************************)
Count(b, p) == Cardinality(Where(b, p))
NMen(b, c)  == Cardinality(MenOf(b, c))

RightBacked(b, x) ==
  CASE x = "K" -> b[4] = "K" /\ b[7] = "R"
    [] x = "Q" -> b[4] = "K" /\ b[0] = "R"
    [] x = "k" -> b[60] = "k" /\ b[63] = "r"
    [] x = "q" -> b[60] = "k" /\ b[56] = "r"

EpPawnSq(pos) == pos.ep + 8 * Fwd(Other(pos.stm))   \* where the pushed pawn stands
EpFromSq(pos) == pos.ep - 8 * Fwd(Other(pos.stm))   \* where it came from

(* the recorded en-passant square refers to an enemy pawn on its double-push rank *)
EpRefersToPawn(pos) ==
  IF pos.ep = NoSq THEN TRUE
  ELSE /\ RankOf(pos.ep) = (IF pos.stm = "w" THEN 5 ELSE 2)
       /\ pos.b[EpPawnSq(pos)] = Pc(Other(pos.stm), "p")

(* consistent with "the last move was that double push" *)
EpConsistent(pos) ==
  IF pos.ep = NoSq THEN TRUE
  ELSE /\ EpRefersToPawn(pos)
       /\ pos.b[pos.ep] = Empty /\ pos.b[EpFromSq(pos)] = Empty
       /\ LET before == [pos.b EXCEPT ![EpPawnSq(pos)] = Empty,
                                      ![EpFromSq(pos)] = Pc(Other(pos.stm), "p")]
          IN ~InCheck(before, pos.stm)

OneKingEach(b) == Count(b, "K") = 1 /\ Count(b, "k") = 1

Necessary(pos) ==
  /\ OneKingEach(pos.b)
  /\ ~InCheck(pos.b, Other(pos.stm))
  /\ \A x \in pos.cr : RightBacked(pos.b, x)
  /\ EpRefersToPawn(pos)

Valid(pos) ==
  /\ OneKingEach(pos.b)
  /\ \A c \in Colors : NMen(pos.b, c) <= 16 /\ Count(pos.b, Pc(c, "p")) <= 8
  /\ \A s \in RankSet(0) \cup RankSet(7) : Kind(pos.b[s]) # "p"
  /\ ~InCheck(pos.b, Other(pos.stm))
  /\ \A x \in pos.cr : RightBacked(pos.b, x)
  /\ EpConsistent(pos)

(***************************************************************************)
(* Symmetries.                                                             *)
(***************************************************************************)
MirrorSq(s) == Sq(FileOf(s), 7 - RankOf(s))
FlipSq(s)   == Sq(7 - FileOf(s), RankOf(s))
MirrorSqOpt(s) == IF s = NoSq THEN NoSq ELSE MirrorSq(s)
FlipSqOpt(s)   == IF s = NoSq THEN NoSq ELSE FlipSq(s)
SwapRight(x) == CASE x = "K" -> "k" [] x = "Q" -> "q" [] x = "k" -> "K" [] x = "q" -> "Q"

Mirror(pos) == [b   |-> [s \in Squares |-> SwapCase(pos.b[MirrorSq(s)])],
                stm |-> Other(pos.stm),
                cr  |-> {SwapRight(x) : x \in pos.cr},
                ep  |-> MirrorSqOpt(pos.ep)]
MirrorMv(m) == Mv(MirrorSq(m.f), MirrorSq(m.t), m.p)

(* left-right reflection; meaningful only without castling rights *)
Flip(pos) == [b |-> [s \in Squares |-> pos.b[FlipSq(s)]], stm |-> pos.stm, cr |-> pos.cr,
              ep |-> FlipSqOpt(pos.ep)]
FlipMv(m) == Mv(FlipSq(m.f), FlipSq(m.t), m.p)

(***************************************************************************)
(* The initial position.                                                   *)
(***************************************************************************)
StartBoard == [s \in Squares |->
   CASE RankOf(s) = 1 -> "P" [] RankOf(s) = 6 -> "p"
     [] RankOf(s) = 0 -> <<"R","N","B","Q","K","B","N","R">>[FileOf(s)+1]
     [] RankOf(s) = 7 -> <<"r","n","b","q","k","b","n","r">>[FileOf(s)+1]
     [] OTHER -> Empty]
StartPos == [b |-> StartBoard, stm |-> "w", cr |-> {"K","Q","k","q"}, ep |-> NoSq]

=============================================================================
