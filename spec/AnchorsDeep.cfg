SPECIFICATION Spec
CONSTANT Deep = TRUE
CHECK_DEADLOCK FALSE
