------------------------------ MODULE IterProofs ------------------------------
(***************************************************************************)
(* Machine-checked (TLAPS) invariants of the move iterator's contract      *)
(* (module MoveGenIter) for ANY set of legal moves, ANY masks and ANY      *)
(* number of calls - the unbounded complement of the bounded refinement    *)
(* check of MCIter.  The contract's actions are restated with two history  *)
(* variables (what was yielded, what was removed); destinations are        *)
(* abstracted by a function To so that the obligations stay first-order.   *)
(*                                                                         *)
(*   Partition : every legal move is, at every moment, in exactly one of   *)
(*               "still owed", "yielded", "removed" - so no move is ever   *)
(*               yielded twice, a removed move is never yielded, and       *)
(*   Complete  : once the full mask is exhausted everything that was not   *)
(*               removed has been yielded (exactly once, by Partition).    *)
(***************************************************************************)
EXTENDS TLAPS

CONSTANTS Legal,        \* the legal moves of the position
          To(_),        \* destination square of a move
          AllSquares    \* the full mask
ASSUME FullMask == \A m \in Legal : To(m) \in AllSquares

VARIABLES remaining, yielded, removed, mask
vars == <<remaining, yielded, removed, mask>>

Avail == {m \in remaining : To(m) \in mask}

Init == remaining = Legal /\ yielded = {} /\ removed = {} /\ mask = AllSquares

SetMask(M)  == mask' = M /\ UNCHANGED <<remaining, yielded, removed>>
NextSome(m) == /\ m \in Avail
               /\ remaining' = remaining \ {m} /\ yielded' = yielded \cup {m}
               /\ UNCHANGED <<removed, mask>>
NextNone    == Avail = {} /\ UNCHANGED vars
RemoveSet(G) == /\ G \subseteq remaining          \* remove_mask / remove_move with its sibling don't-care: some owed moves go
                /\ remaining' = remaining \ G /\ removed' = removed \cup G
                /\ UNCHANGED <<yielded, mask>>

Next == \/ \E M \in SUBSET AllSquares : SetMask(M)
        \/ \E m \in Legal : NextSome(m)
        \/ NextNone
        \/ \E G \in SUBSET Legal : RemoveSet(G)
Spec == Init /\ [][Next]_vars

Partition ==
  /\ remaining \cup yielded \cup removed = Legal
  /\ remaining \cap yielded = {} /\ remaining \cap removed = {} /\ yielded \cap removed = {}

THEOREM InitPartition == Init => Partition
  BY DEF Init, Partition

THEOREM StepPartition == Partition /\ [Next]_vars => Partition'
<1> SUFFICES ASSUME Partition, [Next]_vars PROVE Partition'
  OBVIOUS
<1>1. CASE \E M \in SUBSET AllSquares : SetMask(M)
  BY <1>1 DEF SetMask, Partition
<1>2. CASE \E m \in Legal : NextSome(m)
  BY <1>2 DEF NextSome, Avail, Partition
<1>3. CASE NextNone
  BY <1>3 DEF NextNone, vars, Partition
<1>4. CASE \E G \in SUBSET Legal : RemoveSet(G)
  BY <1>4 DEF RemoveSet, Partition
<1>5. CASE UNCHANGED vars
  BY <1>5 DEF vars, Partition
<1> QED BY <1>1, <1>2, <1>3, <1>4, <1>5 DEF Next

(* nothing is yielded twice: a move that is yielded now was still owed, hence not yielded before *)
THEOREM NoDoubleYield ==
  ASSUME Partition, NEW m \in Legal, NextSome(m)
  PROVE  m \notin yielded /\ m \notin removed
  BY DEF NextSome, Avail, Partition

(* when the full mask is exhausted, exactly the moves that were not removed have been yielded *)
THEOREM Complete ==
  ASSUME Partition, mask = AllSquares, Avail = {}
  PROVE  yielded = Legal \ removed
<1>1. remaining = {}
  BY FullMask DEF Avail, Partition
<1> QED BY <1>1 DEF Partition
=============================================================================
