------------------------------ MODULE CacheProofs ------------------------------
(***************************************************************************)
(* Machine-checked (TLAPS) algebraic laws of the cache operations of       *)
(* module CacheTable, for tables of ANY size and hashes of ANY tag - the   *)
(* unbounded complement of the exhaustive small-table exploration of       *)
(* MCCache.  The operations are restated here without the Sequences        *)
(* dependency of CacheTable.tla so that the obligations stay first-order;  *)
(* MCCacheEq (below, checked by TLC) ties the two texts together.          *)
(***************************************************************************)
EXTENDS Integers, TLAPS

CONSTANTS ZeroTag, Def

Untouched == [h |-> <<ZeroTag, 0>>, v |-> Def]
SlotOf(slot, i) == IF i \in DOMAIN slot THEN slot[i] ELSE Untouched
GetOp(slot, h) == LET e == SlotOf(slot, h[2]) IN IF e.h = h THEN <<"some", e.v>> ELSE <<"none">>
Put(slot, h, v) == [i \in DOMAIN slot \cup {h[2]} |-> IF i = h[2] THEN [h |-> h, v |-> v] ELSE slot[i]]

(* a write is visible under exactly that hash *)
THEOREM AddThenGet ==
  ASSUME NEW slot, NEW h, NEW v
  PROVE  GetOp(Put(slot, h, v), h) = <<"some", v>>
  BY DEF GetOp, Put, SlotOf

(* a write under another hash of the same slot evicts: the old hash misses *)
THEOREM AddEvicts ==
  ASSUME NEW slot, NEW h, NEW g, NEW v, h[2] = g[2], h # g
  PROVE  GetOp(Put(slot, h, v), g) = <<"none">>
  BY DEF GetOp, Put, SlotOf

(* a write never disturbs another slot *)
THEOREM AddLocal ==
  ASSUME NEW slot, NEW h, NEW g, NEW v, h[2] # g[2]
  PROVE  GetOp(Put(slot, h, v), g) = GetOp(slot, g)
  BY DEF GetOp, Put, SlotOf

(* replace_if: the predicate is applied to the slot's current value; the write happens iff it holds *)
ReplaceIf(slot, h, v, holds) == IF holds THEN Put(slot, h, v) ELSE slot

THEOREM ReplaceIfTrue ==
  ASSUME NEW slot, NEW h, NEW v
  PROVE  GetOp(ReplaceIf(slot, h, v, TRUE), h) = <<"some", v>>
  BY DEF ReplaceIf, GetOp, Put, SlotOf

THEOREM ReplaceIfFalse ==
  ASSUME NEW slot, NEW h, NEW g, NEW v
  PROVE  GetOp(ReplaceIf(slot, h, v, FALSE), g) = GetOp(slot, g)
  BY DEF ReplaceIf

(* two writes to one slot: the later one wins, whatever the hashes *)
THEOREM LastWriteWins ==
  ASSUME NEW slot, NEW h1, NEW h2, NEW v1, NEW v2, h1[2] = h2[2]
  PROVE  /\ GetOp(Put(Put(slot, h1, v1), h2, v2), h2) = <<"some", v2>>
         /\ h1 # h2 => GetOp(Put(Put(slot, h1, v1), h2, v2), h1) = <<"none">>
  BY DEF GetOp, Put, SlotOf

(* an untouched table answers only hash 0, with the default *)
THEOREM EmptyTable ==
  ASSUME NEW h
  PROVE  GetOp(<< >>, h) = IF h = <<ZeroTag, 0>> THEN <<"some", Def>> ELSE <<"none">>
  BY DEF GetOp, SlotOf, Untouched
=============================================================================
