------------------------------ MODULE GameProofs ------------------------------
(***************************************************************************)
(* Machine-checked (TLAPS) laws of the game protocol of module Game, for   *)
(* ANY rules of chess (status and legality are uninterpreted), ANY start   *)
(* position and ANY number of actions - the unbounded complement of the    *)
(* bounded exploration of MCGame.  The protocol skeleton is restated with  *)
(* the last logged action and the log length in place of the sequence, so  *)
(* that the obligations stay first-order.                                  *)
(*                                                                         *)
(*   ResultFinal  : once a result exists every action is refused and       *)
(*                  nothing changes;                                       *)
(*   EndersEnd    : an accepted accept / declare / resign leaves a result; *)
(*   OnlyEndersOrBoard : a result exists only because of the board (mate,  *)
(*                  stalemate) or because the last action is an ender.     *)
(***************************************************************************)
EXTENDS Integers, TLAPS

CONSTANTS Status(_),          \* "Checkmate" / "Stalemate" / "Ongoing" of a position
          Legal(_, _),        \* Legal(p, m): m is legal in p
          After(_, _),        \* successor position
          Stm(_),             \* side to move of a position: "w" / "b"
          Moves, Colors, AcceptOK, ClaimOK     \* AcceptOK / ClaimOK: the (history dependent) side conditions, left open

NoResult == "None"
NoAct    == [a |-> "none"]

VARIABLES cur, last, n, result, ret
vars == <<cur, last, n, result, ret>>

BoardResult(p) ==
  IF Status(p) = "Checkmate" THEN (IF Stm(p) = "w" THEN "BlackCheckmates" ELSE "WhiteCheckmates")
  ELSE IF Status(p) = "Stalemate" THEN "Stalemate" ELSE NoResult

ResultOf(p, x) ==
  IF BoardResult(p) # NoResult THEN BoardResult(p)
  ELSE IF x.a = "accept" THEN "DrawAccepted"
  ELSE IF x.a = "declare" THEN "DrawDeclared"
  ELSE IF x.a = "resign" THEN (IF x.c = "w" THEN "WhiteResigns" ELSE "BlackResigns")
  ELSE NoResult

Init(p0) == cur = p0 /\ last = NoAct /\ n = 0 /\ result = ResultOf(p0, NoAct) /\ ret = "none"

Refuse == ret' = "refused" /\ UNCHANGED <<cur, last, n, result>>
Push(x, p) == cur' = p /\ last' = x /\ n' = n + 1 /\ result' = ResultOf(p, x) /\ ret' = "ok"

TryMove(m)  == IF result = NoResult /\ Legal(cur, m) THEN Push([a |-> "move", m |-> m], After(cur, m)) ELSE Refuse
Offer(c)    == IF result = NoResult THEN Push([a |-> "offer", c |-> c], cur) ELSE Refuse
Resign(c)   == IF result = NoResult THEN Push([a |-> "resign", c |-> c], cur) ELSE Refuse
Accept      == IF result = NoResult /\ AcceptOK THEN (Push([a |-> "accept"], cur) \/ Refuse) ELSE Refuse
Declare     == IF result = NoResult /\ ClaimOK THEN Push([a |-> "declare"], cur) ELSE Refuse

Next == \/ \E m \in Moves : TryMove(m)
        \/ \E c \in Colors : Offer(c) \/ Resign(c)
        \/ Accept \/ Declare

(* result is always what the board and the last action say *)
Consistent == result = ResultOf(cur, last)

THEOREM InitConsistent == ASSUME NEW p0, Init(p0) PROVE Consistent
  BY DEF Init, Consistent

THEOREM StepConsistent == Consistent /\ [Next]_vars => Consistent'
<1> SUFFICES ASSUME Consistent, [Next]_vars PROVE Consistent'
  OBVIOUS
<1>1. CASE UNCHANGED vars
  BY <1>1 DEF vars, Consistent
<1>2. CASE Refuse
  BY <1>2 DEF Refuse, Consistent
<1>3. ASSUME NEW x, NEW p, Push(x, p) PROVE Consistent'
  BY <1>3 DEF Push, Consistent
<1>4. CASE \E m \in Moves : TryMove(m)
  BY <1>4, <1>2, <1>3 DEF TryMove
<1>5. CASE \E c \in Colors : Offer(c) \/ Resign(c)
  BY <1>5, <1>2, <1>3 DEF Offer, Resign
<1>6. CASE Accept
  BY <1>6, <1>2, <1>3 DEF Accept
<1>7. CASE Declare
  BY <1>7, <1>2, <1>3 DEF Declare
<1> QED BY <1>1, <1>4, <1>5, <1>6, <1>7 DEF Next

(* once a result exists: every action is refused, nothing changes *)
THEOREM ResultFinal ==
  ASSUME result # NoResult, Next
  PROVE  ret' = "refused" /\ result' = result /\ cur' = cur /\ last' = last /\ n' = n
  BY DEF Next, TryMove, Offer, Resign, Accept, Declare, Refuse

(* an ender that is accepted leaves a result *)
THEOREM EndersEnd ==
  ASSUME NEW p, NEW x, x.a \in {"accept", "declare", "resign"}, Push(x, p)
  PROVE  result' # NoResult
  BY DEF Push, ResultOf, BoardResult, NoResult

(* a result exists only because of the board or because the last action is an ender *)
THEOREM OnlyEndersOrBoard ==
  ASSUME Consistent, result # NoResult
  PROVE  BoardResult(cur) # NoResult \/ last.a \in {"accept", "declare", "resign"}
  BY DEF Consistent, ResultOf

(* the log grows by exactly one accepted action at a time *)
THEOREM LogGrows == [Next]_vars => (n' = n \/ (n' = n + 1 /\ ret' = "ok"))
  BY DEF Next, vars, TryMove, Offer, Resign, Accept, Declare, Refuse, Push
=============================================================================
