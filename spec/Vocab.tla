------------------------------- MODULE Vocab --------------------------------
(***************************************************************************)
(* The small value types of the library's API - Color, Piece, Rank, File,  *)
(* CastleRights, ChessMove's ordering - as the specification sees them.    *)
(* Everything is finite; MCVocab enumerates all of it and the replayer     *)
(* compares every entry with the library (direction A, finite domain).     *)
(*                                                                         *)
(* None of this is stated by a listed property on its own: the listed      *)
(* properties depend on it (move application uses the rights tables, FEN   *)
(* the piece letters, move generation the colour-relative ranks).  A       *)
(* mismatch found here is therefore reported as a divergence from the      *)
(* specification (a NOTE in the check's output and evidence), never as a   *)
(* VIOLATION of a listed property.                                         *)
(***************************************************************************)
EXTENDS Geometry

(* ---- Color: index 0 = White, 1 = Black ---- *)
ColorIdx(c) == IF c = "w" THEN 0 ELSE 1
ColorRec(c) ==
  [c |-> c, idx |-> ColorIdx(c), not |-> Other(c),
   myback |-> BackRank(c), theirback |-> BackRank(Other(c)),
   second |-> StartRank(c), fourth |-> DoubleRank(c), seventh |-> StartRank(Other(c))]

(* ---- Piece: index order pawn < knight < bishop < rook < queen < king ---- *)
PieceLetters == <<"p", "n", "b", "r", "q", "k">>
UpperOf(l) == CASE l = "p" -> "P" [] l = "n" -> "N" [] l = "b" -> "B" [] l = "r" -> "R" [] l = "q" -> "Q" [] l = "k" -> "K"
PieceRec(i) == [idx |-> i - 1, lower |-> PieceLetters[i], upper |-> UpperOf(PieceLetters[i])]
PromotionKinds == {"q", "n", "r", "b"}

(* ---- CastleRights of ONE side: a subset of {"K","Q"}; index = 1*[K] + 2*[Q] ---- *)
CrOfIdx(i) == (IF i % 2 = 1 THEN {"K"} ELSE {}) \cup (IF (i \div 2) % 2 = 1 THEN {"Q"} ELSE {})
CrIdx(S)   == (IF "K" \in S THEN 1 ELSE 0) + (IF "Q" \in S THEN 2 ELSE 0)
CrText(S, c) ==
  LET k == IF "K" \in S THEN (IF c = "w" THEN "K" ELSE "k") ELSE ""
      q == IF "Q" \in S THEN (IF c = "w" THEN "Q" ELSE "q") ELSE ""
  IN k \o q
UnmovedRooks(S, c) ==
  (IF "K" \in S THEN {Sq(7, BackRank(c))} ELSE {}) \cup (IF "Q" \in S THEN {Sq(0, BackRank(c))} ELSE {})
KingsideSquares(c)  == {Sq(5, BackRank(c)), Sq(6, BackRank(c))}                          \* must be empty to castle short
QueensideSquares(c) == {Sq(1, BackRank(c)), Sq(2, BackRank(c)), Sq(3, BackRank(c))}      \* ... long
(* the rights of colour c that are attached to square s: a move from or to s forfeits them *)
SquareRights(c, s) ==
  IF s = Sq(4, BackRank(c)) THEN {"K", "Q"}
  ELSE IF s = Sq(7, BackRank(c)) THEN {"K"}
  ELSE IF s = Sq(0, BackRank(c)) THEN {"Q"} ELSE {}
(* by file only (the library's rook_square_to_castle_rights) *)
RookFileRights(s) == IF FileOf(s) = 0 THEN {"Q"} ELSE IF FileOf(s) = 7 THEN {"K"} ELSE {}
CastleDestinations == {Sq(2, 0), Sq(6, 0), Sq(2, 7), Sq(6, 7)}

CrRec(i) ==
  LET S == CrOfIdx(i) IN
  [idx |-> i, hask |-> ("K" \in S), hasq |-> ("Q" \in S),
   add |-> [j \in 1..4 |-> CrIdx(S \cup CrOfIdx(j - 1))],
   remove |-> [j \in 1..4 |-> CrIdx(S \ CrOfIdx(j - 1))],
   fromidx |-> [j \in 1..16 |-> (j - 1) % 4],
   textw |-> CrText(S, "w"), textb |-> CrText(S, "b"),
   rooksw |-> UnmovedRooks(S, "w"), rooksb |-> UnmovedRooks(S, "b")]

(* ---- ChessMove: total order = lexicographic (source, destination, promotion) with "no promotion" first ---- *)
PromoRank(p) == CASE p = "-" -> 0 [] p = "n" -> 2 [] p = "b" -> 3 [] p = "r" -> 4 [] p = "q" -> 5
                  [] p = "p" -> 1 [] p = "k" -> 6            \* ChessMove::new accepts any piece as "promotion"
MoveKey(f, t, p) == (f * 64 + t) * 8 + PromoRank(p)
Cmp(a, b) == IF a < b THEN -1 ELSE IF a > b THEN 1 ELSE 0

(* ---- names: ranks "1".."8", files "a".."h", squares file letter + rank digit; tables are indexed from 0 ---- *)
RankNamesV == <<"1", "2", "3", "4", "5", "6", "7", "8">>
FileNamesV == <<"a", "b", "c", "d", "e", "f", "g", "h">>
SquareName(q) == FileNamesV[FileOf(q) + 1] \o RankNamesV[RankOf(q) + 1]
(* texts a rank / file reader must refuse (one character of the other alphabet, upper case, empty, too long is a prefix matter) *)
NotARank == {"0", "9", "a", "h", "A", "", " "}
NotAFile == {"i", "A", "H", "1", "8", "", " "}

(* ---- BitBoard as text: 64 cells "X " / ". " from a1 upwards, a line break after every eighth ---- *)
RECURSIVE Cells(_, _)
Cells(S, x) == IF x = 64 THEN ""
               ELSE (IF x \in S THEN "X " ELSE ". ") \o (IF x % 8 = 7 THEN "\n" ELSE "") \o Cells(S, x + 1)
BitBoardText(S) == Cells(S, 0)

ASSUME \A i \in 0..3 : CrIdx(CrOfIdx(i)) = i
ASSUME \A c \in Colors : UnmovedRooks({"K", "Q"}, c) \subseteq {s \in Squares : SquareRights(c, s) # {}}
ASSUME \A c \in Colors, s \in Squares : SquareRights(c, s) # {} => RankOf(s) = BackRank(c)
=============================================================================
