SPECIFICATION BSpec
POSTCONDITION Accepted
CHECK_DEADLOCK FALSE
