------------------------------ MODULE TraceGame ------------------------------
(***************************************************************************)
(* Trace validation of recorded executions of the real Game object.        *)
(* One NDJSON line per public call: op, arguments, return value and the    *)
(* state observed afterwards (result, side to move, number of logged       *)
(* actions, current position, can_declare_draw).                           *)
(* PROP = "C10": every return value, the result, the log and the current   *)
(*               position must be what the protocol prescribes; draw       *)
(*               claims are followed from the log.                         *)
(* PROP = "C11": only draw claims (can_declare_draw after every call and   *)
(*               declare_draw) are judged; everything else is followed.    *)
(***************************************************************************)
EXTENDS Game, Json, IOUtils

Rec  == ndJsonDeserialize(IOEnv.TRACE)
PROP == IOEnv.PROP

VARIABLES l, dom
tgvars == <<l, dom, gvars>>

SeqSet(q) == {q[i] : i \in 1..Len(q)}
EvEp(r)  == IF r.ep_raw = -1 THEN NoSq ELSE r.ep_raw + (IF r.cstm = "w" THEN 8 ELSE -8)
EvPos(r) == [b |-> [s \in Squares |-> Ch(r.sq, s + 1)], stm |-> r.cstm, cr |-> SeqSet(r.cr), ep |-> EvEp(r)]
MvOf(q)  == Mv(q[1], q[2], q[3])
ColorArg(x) == x    \* "w" / "b"

(* what every call must leave behind (C10) *)
AfterOK(r) ==
  /\ r.result = result'
  /\ r.nact = Len(log')
  /\ r.stm = SideAfter(start', log')
  /\ EvPos(r) = cur'

(* claim observation after every call (C11) *)
ClaimObsOK(r) ==
  /\ ClaimOp' => r.can
  /\ r.can => ClaimOpMay'

Judge10(x) == (dom /\ PROP = "C10") => (x = TRUE)
Judge11(x) == (dom /\ PROP = "C11") => (x = TRUE)

IsOp(o) == l <= Len(Rec) /\ Rec[l].event = "GameOp" /\ Rec[l].op = o /\ l' = l + 1

TNew ==
  /\ l <= Len(Rec) /\ Rec[l].event = "GameNew" /\ l' = l + 1
  /\ LET r == Rec[l]
         p == EvPos(r)
     IN /\ dom' = Valid(p)
        /\ IF Valid(p)
           THEN /\ start' = p /\ log' = <<>> /\ cur' = p /\ result' = ResultOf(p, <<>>)
                /\ halfmove' = 0 /\ seen' = <<p>> /\ ret' = "none"
                /\ Judge10(AfterOK(r))
                /\ Judge11(ClaimObsOK(r))
           ELSE UNCHANGED gvars

Follow(r, x, c2, hm2, seen2) ==    \* an accepted action, with the logged position
  /\ log' = Append(log, x) /\ cur' = c2 /\ halfmove' = hm2 /\ seen' = seen2
  /\ result' = ResultOf(c2, Append(log, x)) /\ ret' = "ok" /\ UNCHANGED start

Stay == UNCHANGED <<start, log, cur, result, halfmove, seen>> /\ ret' = "refused"

TMakeMove ==
  /\ IsOp("make_move")
  /\ LET r == Rec[l]
         m == MvOf(r.m)
         p == EvPos(r)
         \* the position the game is in afterwards: the logged one when the rules allow it, else the rules' own -
         \* draw claims are judged on the game that was really played, not on what the library believes it to be
         n == IF m \in LegalMoves(cur) /\ p \notin Succ(cur, m) THEN Apply(cur, m) ELSE p
     IN /\ dom' = dom
        /\ IF ~dom THEN UNCHANGED gvars
           ELSE /\ Judge10(r.ret = MoveOK(m))
                /\ IF r.ret
                   THEN /\ Judge10(p \in Succ(cur, m))
                        /\ (IF cur.b[m.f] = Empty THEN Stay     \* cannot interpret: follow nothing
                            ELSE IF Irreversible(cur, m) THEN Follow(r, AMove(m), n, 0, <<n>>)
                            ELSE Follow(r, AMove(m), n, halfmove + 1, Append(seen, n)))
                   ELSE Stay
                /\ Judge10(AfterOK(r))
                /\ Judge11(ClaimObsOK(r))

TSimple(op, act(_), arg(_)) ==     \* offer_draw(c) / resign(c): accepted iff no result yet
  /\ IsOp(op)
  /\ LET r == Rec[l]
     IN /\ dom' = dom
        /\ IF ~dom THEN UNCHANGED gvars
           ELSE /\ Judge10(r.ret = (result = NoResult))
                /\ IF r.ret THEN Follow(r, act(arg(r)), cur, halfmove, seen) ELSE Stay
                /\ Judge10(AfterOK(r))
                /\ Judge11(ClaimObsOK(r))

ColorOfArg(r) == r.c
TOffer  == TSimple("offer_draw", AOffer, ColorOfArg)
TResign == TSimple("resign", AResign, ColorOfArg)

TAccept ==
  /\ IsOp("accept_draw")
  /\ LET r == Rec[l]
     IN /\ dom' = dom
        /\ IF ~dom THEN UNCHANGED gvars
           ELSE /\ Judge10(r.ret => (result = NoResult /\ AcceptCond(start, log)))   \* only-if
                /\ IF r.ret THEN Follow(r, AAccept, cur, halfmove, seen) ELSE Stay
                /\ Judge10(AfterOK(r))
                /\ Judge11(ClaimObsOK(r))

TDeclare ==
  /\ IsOp("declare_draw")
  /\ LET r == Rec[l]
     IN /\ dom' = dom
        /\ IF ~dom THEN UNCHANGED gvars
           ELSE /\ Judge10(r.ret => result = NoResult)
                /\ Judge11(ClaimOp => r.ret)
                /\ Judge11(r.ret => ClaimOpMay)
                /\ IF r.ret THEN Follow(r, ADeclare, cur, halfmove, seen) ELSE Stay
                /\ Judge10(AfterOK(r))
                /\ Judge11(r.ret => r.result = "DrawDeclared")
                /\ Judge11(ClaimObsOK(r))

TGInit == l = 1 /\ dom = FALSE /\ GInit(StartPos)
TGNext == TNew \/ TMakeMove \/ TOffer \/ TResign \/ TAccept \/ TDeclare
TGSpec == TGInit /\ [][TGNext]_tgvars

Accepted ==
  LET d == TLCGet("stats").diameter - 1
  IN IF d = Len(Rec) THEN PrintT(<<"TRACE-ACCEPTED", d>>)
     ELSE PrintT(<<"TRACE-REJECTED-AT-LINE", d + 1, "of", Len(Rec)>>) /\ FALSE
=============================================================================
