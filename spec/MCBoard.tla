------------------------------- MODULE MCBoard -------------------------------
(***************************************************************************)
(* The Board state machine explored by TLC: positions are set up (staged   *)
(* placement of a material family, or curated roots) and then played by    *)
(* legal moves.  While exploring, TLC                                      *)
(*   (a) checks the spec-level forms of the listed properties as Asserts   *)
(*       that share the legal-move set with the next-state relation, and   *)
(*   (b) prints one JSON record per expanded state: the oracle data the    *)
(*       Rust replayer compares the real library against.                  *)
(***************************************************************************)
EXTENDS San, RulesImpl, Json

CONSTANTS
  Family,     \* which set of start positions (see Stages / RootFens)
  MaxDepth,   \* plies played from each start position; 999 = unbounded (closed families)
  Lemmas,     \* 0: none, 1: cheap spec-level invariants, 2: + mirror / flip commutation
  Emit,       \* TRUE: print a REC line per expanded state
  Sub,        \* family-specific size knob (file pair / subset selector); 0 = everything
  San         \* TRUE: records carry the SAN spellings of every legal move and texts to be rejected

VARIABLES pos, stage, depth, ld
vars == <<pos, stage, depth, ld>>

EmptyBoard == [s \in Squares |-> Empty]
NoPos == [b |-> EmptyBoard, stm |-> "w", cr |-> {}, ep |-> NoSq]

(***************************************************************************)
(* Material families: a sequence of stages, each placing one man on one of *)
(* a set of squares that may depend on what stands already.                *)
(***************************************************************************)
PawnRanks == {s \in Squares : RankOf(s) \in 1..6}
AlignedWith(S) == {t \in Squares : \E s \in S : Aligned(s, t)}
FilesOf(F) == {s \in Squares : FileOf(s) \in F}

(* EP families: pusher's pawn on its start rank, capturer's pawn on the     *)
(* rank where the push will land, on an adjacent file.  Sub selects the     *)
(* pusher file (1..8), 0 = all.                                             *)
PusherFiles == IF Sub = 0 THEN 0..7 ELSE {(Sub - 1) % 8}

StageSquares(i, b) ==
  CASE Family \in {"KQK","KRK","KBK","KNK","KK"} -> Squares
    [] Family = "KPK" -> IF i = 3 THEN (IF Sub = 0 THEN PawnRanks ELSE PawnRanks \cap FilesOf({(Sub-1) % 8})) ELSE Squares
    [] Family = "KPK7w" -> IF i = 3 THEN RankSet(6) \cap (IF Sub = 0 THEN Squares ELSE FilesOf({(Sub-1) % 8})) ELSE Squares
    [] Family = "KPK7b" -> IF i = 3 THEN RankSet(1) \cap (IF Sub = 0 THEN Squares ELSE FilesOf({(Sub-1) % 8})) ELSE Squares
    [] Family = "KPKP" -> IF i \in {3,4} THEN (IF Sub = 0 THEN PawnRanks ELSE PawnRanks \cap FilesOf({(Sub-1) % 8, Sub % 8})) ELSE Squares
    [] Family \in {"EPw","EPXw"} ->        \* White pushes, Black captures
        (CASE i = 1 -> RankSet(1) \cap FilesOf(PusherFiles)                 \* P
           [] i = 2 -> {t \in RankSet(3) : \E s \in Where(b, "P") : Abs(FileOf(s) - FileOf(t)) = 1}  \* p
           [] i = 3 -> IF Family = "EPw" THEN Squares
                       ELSE AlignedWith({s + 16 : s \in Where(b, "P")} \cup Where(b, "p") \cup Where(b, "P"))   \* k: capturer's king
           [] i = 4 -> IF Family = "EPw" THEN Squares ELSE (IF Sub = 0 THEN {0, 7, 56, 63, 26, 29} ELSE {0, 63})   \* K
           [] i = 5 -> AlignedWith({s + 16 : s \in Where(b, "P")} \cup Where(b, "p") \cup Where(b, "P")))   \* white slider
    [] Family \in {"EPb","EPXb"} ->        \* Black pushes, White captures
        (CASE i = 1 -> RankSet(6) \cap FilesOf(PusherFiles)
           [] i = 2 -> {t \in RankSet(4) : \E s \in Where(b, "p") : Abs(FileOf(s) - FileOf(t)) = 1}
           [] i = 3 -> IF Family = "EPb" THEN Squares
                       ELSE AlignedWith({s - 16 : s \in Where(b, "p")} \cup Where(b, "P") \cup Where(b, "p"))
           [] i = 4 -> IF Family = "EPb" THEN Squares ELSE (IF Sub = 0 THEN {0, 7, 56, 63, 34, 37} ELSE {0, 63})
           [] i = 5 -> AlignedWith({s - 16 : s \in Where(b, "p")} \cup Where(b, "P") \cup Where(b, "p")))
    [] Family = "CASTLE" -> IF i <= 6 THEN {<<4, 0, 7, 60, 56, 63>>[i]} ELSE Squares
    [] Family \in {"EP2w", "EP2b"} ->  \* two capturers flanking the pusher, a slider aligned with them (built for White pushing; EP2b is its mirror)
        (CASE i = 1 -> RankSet(1) \cap FilesOf(IF Sub = 0 THEN 1..6 ELSE {((Sub - 1) % 6) + 1})       \* P on files b..g
           [] i = 2 -> {t \in RankSet(3) : \E q \in Where(b, "P") : FileOf(t) = FileOf(q) - 1}          \* p left
           [] i = 3 -> {t \in RankSet(3) : \E q \in Where(b, "P") : FileOf(t) = FileOf(q) + 1}          \* p right
           [] i = 4 -> AlignedWith(Where(b, "p"))                                                       \* k
           [] i = 5 -> {0, 63}                                                                          \* K
           [] i = 6 -> AlignedWith(Where(b, "p") \cup {q + 16 : q \in Where(b, "P")}))                 \* white slider
    [] Family \in {"ROOKCAPw", "ROOKCAPb"} ->   \* an enemy king next to a home rook that still carries its right (built for White capturing)
        (CASE i = 1 -> {60}                    \* k e8
           [] i = 2 -> {56, 63}                \* r a8 / h8
           [] i = 3 -> Squares)                \* K
    [] Family \in {"EPRRw", "EPRRb"} ->   \* capturer's king on the rank of the pawns, two enemy rooks/queens: one on that rank, one on a line of the king
        (CASE i = 1 -> RankSet(1) \cap FilesOf(PusherFiles)                                                     \* P
           [] i = 2 -> {t \in RankSet(3) : \E q \in Where(b, "P") : Abs(FileOf(q) - FileOf(t)) = 1}          \* p
           [] i = 3 -> RankSet(3)                                                                                \* k
           [] i = 4 -> {0, 63}                                                                                   \* K
           [] i = 5 -> RankSet(3)                                                                                \* first slider, on the rank
           [] i = 6 -> LET k == CHOOSE q \in Squares : b[q] = "k"
                       IN FileSet(FileOf(k)) \cup RankSet(RankOf(k)))                                          \* second slider, on a line of the king
    [] Family \in {"EPBBw", "EPBBb"} ->   \* two enemy bishops / queens on the diagonals of the capturer's king
        (CASE i = 1 -> RankSet(1) \cap FilesOf(PusherFiles)                                                     \* P
           [] i = 2 -> {t \in RankSet(3) : \E q \in Where(b, "P") : Abs(FileOf(q) - FileOf(t)) = 1}          \* p
           [] i = 3 -> LET S == Where(b, "p") \cup {q + 8 : q \in Where(b, "P")}                               \* k on a diagonal through the capturer or the target
                       IN {t \in Squares : \E q \in S : t # q /\ Abs(FileOf(t) - FileOf(q)) = Abs(RankOf(t) - RankOf(q))}
           [] i = 4 -> {0, 63}                                                                                   \* K
           [] i \in {5, 6} -> LET k == CHOOSE q \in Squares : b[q] = "k"
                              IN {t \in Squares : t # k /\ Abs(FileOf(t) - FileOf(k)) = Abs(RankOf(t) - RankOf(k))})
    [] Family \in {"EPEDGEw", "EPEDGEb"} ->   \* rook-pawn double push with an enemy pawn across the board edge (and none where a capturer must stand)
        (CASE i = 1 -> RankSet(1) \cap FilesOf({0, 7})                                                            \* P on a2 / h2
           [] i = 2 -> {t \in Squares : RankOf(t) \in 2..4 /\ \E q \in Where(b, "P") : FileOf(t) \in {7 - FileOf(q), FileOf(q) + 1, FileOf(q) - 1}}   \* p: opposite edge file or the real neighbour, ranks 3..5
           [] i = 3 -> {60, 62, 49, 21}                                                                           \* k
           [] i = 4 -> {4, 6, 9, 42})                                                                             \* K
    [] Family = "EPALLw" ->     \* every file: White pushes, Black captures, kings on a few far squares
        (CASE i = 1 -> RankSet(1)
           [] i = 2 -> {t \in RankSet(3) : \E q \in Where(b, "P") : Abs(FileOf(q) - FileOf(t)) = 1}
           [] i = 3 -> {56, 63, 60}
           [] i = 4 -> {0, 7, 4})
    [] Family = "EPALLb" ->
        (CASE i = 1 -> RankSet(6)
           [] i = 2 -> {t \in RankSet(4) : \E q \in Where(b, "p") : Abs(FileOf(q) - FileOf(t)) = 1}
           [] i = 3 -> {0, 7, 4}
           [] i = 4 -> {56, 63, 60})
    [] Family = "RAND" -> Squares
    [] Family \in {"PINw", "PINb"} ->      \* king - own man - enemy slider on one line (built for White, mirrored for PINb)
        (CASE i = 1 -> IF Sub = 0 THEN Squares ELSE FilesOf({(Sub - 1) % 8})            \* K
           [] i = 2 -> AlignedWith(Where(b, "K"))                                          \* own man X
           [] i = 3 -> LET k == CHOOSE q \in Squares : b[q] = "K"                          \* enemy slider beyond X
                           x == CHOOSE q \in Squares : b[q] \notin {Empty, "K"}
                       IN {t \in Squares : Aligned(k, t) /\ x \in Between(k, t)}
           [] i = 4 -> {0, 7, 56, 63, 27})                                                 \* k
    [] OTHER -> {}

StageMen ==
  CASE Family = "KK"  -> << {"K"}, {"k"} >>
    [] Family = "KQK" -> << {"K"}, {"k"}, {"Q"} >>
    [] Family = "KRK" -> << {"K"}, {"k"}, {"R"} >>
    [] Family = "KBK" -> << {"K"}, {"k"}, {"B"} >>
    [] Family = "KNK" -> << {"K"}, {"k"}, {"N"} >>
    [] Family = "KPK" -> << {"K"}, {"k"}, {"P"} >>
    [] Family = "KPKP" -> << {"K"}, {"k"}, {"P"}, {"p"} >>
    [] Family = "KPK7w" -> << {"K"}, {"k"}, {"P"} >>
    [] Family = "KPK7b" -> << {"k"}, {"K"}, {"p"} >>
    [] Family = "EPw" -> << {"P"}, {"p"}, {"k"}, {"K"} >>
    [] Family = "EPb" -> << {"p"}, {"P"}, {"K"}, {"k"} >>
    [] Family \in {"EP2w", "EP2b"} -> << {"P"}, {"p"}, {"p"}, {"k"}, {"K"}, {"R","B","Q"} >>
    [] Family \in {"ROOKCAPw", "ROOKCAPb"} -> << {"k"}, {"r"}, {"K"} >>
    [] Family \in {"EPRRw", "EPRRb"} -> << {"P"}, {"p"}, {"k"}, {"K"}, {"R", "Q"}, {"R", "Q"} >>
    [] Family \in {"EPBBw", "EPBBb"} -> << {"P"}, {"p"}, {"k"}, {"K"}, {"B", "Q"}, {"B", "Q"} >>
    [] Family \in {"EPEDGEw", "EPEDGEb"} -> << {"P"}, {"p"}, {"k"}, {"K"} >>
    [] Family = "EPALLw" -> << {"P"}, {"p"}, {"k"}, {"K"} >>
    [] Family = "EPALLb" -> << {"p"}, {"P"}, {"K"}, {"k"} >>
    [] Family = "EPXw" -> << {"P"}, {"p"}, {"k"}, {"K"}, {"R","B","Q"} >>
    [] Family = "EPXb" -> << {"p"}, {"P"}, {"K"}, {"k"}, {"r","b","q"} >>
    [] Family = "RAND" -> << {"K"}, {"k"} >> \o [j \in 1..(IF Sub = 0 THEN 8 ELSE Sub) |-> Men \ {"K", "k"}]
    [] Family \in {"PINw", "PINb"} -> << {"K"}, {"P","N","B","R","Q"}, {"b","r","q"}, {"k"} >>
    [] Family = "CASTLE" -> << {"K"}, {"R"}, {"R"}, {"k"}, {"r"}, {"r"},
                               IF Sub = 0 THEN {"Q","R","B","N","P","q","r","b","n","p"}
                               ELSE IF Sub = 1 THEN {"Q","n","P"} ELSE {"q","N","B","r","p"} >>
    [] OTHER -> << >>
NStages == Len(StageMen)

MirroredFamilies == {"PINb", "EP2b", "ROOKCAPb", "EPRRb", "EPBBb", "EPEDGEb"}     \* built with White's men, then colour-mirrored

StmChoices ==
  CASE Family \in {"EPw","EPXw","EPALLw","EP2w","EP2b","ROOKCAPw","ROOKCAPb","EPRRw","EPRRb","EPBBw","EPBBb","EPEDGEw","EPEDGEb"} -> {"w"}
    [] Family \in {"EPb","EPXb","EPALLb"} -> {"b"}
    [] Family \in {"PINw","PINb"} -> {"w"}
    [] OTHER -> {"w","b"}

RightsChoices(b) ==
  IF Family \in {"ROOKCAPw", "ROOKCAPb"} THEN {IF b[63] = "r" THEN {"k"} ELSE {"q"}}
  ELSE IF Family = "CASTLE"
  THEN (IF Sub = 0 THEN SUBSET {"K","Q","k","q"}
        ELSE {{"K","Q","k","q"}, {"K","q"}, {"Q","k"}, {"Q"}, {"k"}})
  ELSE {{}}

(***************************************************************************)
(* Curated roots (Family = "ROOTS"): the initial position, the positions   *)
(* of the published perft suites and promotion / pin / en-passant heavy    *)
(* positions, each also colour-mirrored.  Sub = 0: all; k > 0: root k only.*)
(***************************************************************************)
RootFens == <<
  "rnbqkbnr/pppppppp/8/8/8/8/PPPPPPPP/RNBQKBNR w KQkq - 0 1",
  "r3k2r/p1ppqpb1/bn2pnp1/3PN3/1p2P3/2N2Q1p/PPPBBPPP/R3K2R w KQkq - 0 1",
  "8/2p5/3p4/KP5r/1R3p1k/8/4P1P1/8 w - - 0 1",
  "r3k2r/Pppp1ppp/1b3nbN/nP6/BBP1P3/q4N2/Pp1P2PP/R2Q1RK1 w kq - 0 1",
  "rnbq1k1r/pp1Pbppp/2p5/8/2B5/8/PPP1NnPP/RNBQK2R w KQ - 1 8",
  "r4rk1/1pp1qppp/p1np1n2/2b1p1B1/2B1P1b1/P1NP1N2/1PP1QPPP/R4RK1 w - - 0 10",
  "3k4/3p4/8/K1P4r/8/8/8/8 b - - 0 1",
  "8/8/4k3/8/2p5/8/B2P2K1/8 w - - 0 1",
  "8/8/1k6/2b5/2pP4/8/5K2/8 b - d3 0 1",
  "5k2/8/8/8/8/8/8/4K2R w K - 0 1",
  "3k4/8/8/8/8/8/8/R3K3 w Q - 0 1",
  "r3k2r/1b4bq/8/8/8/8/7B/R3K2R w KQkq - 0 1",
  "r3k2r/8/3Q4/8/8/5q2/8/R3K2R b KQkq - 0 1",
  "2K2r2/4P3/8/8/8/8/8/3k4 w - - 0 1",
  "8/8/1P2K3/8/2n5/1q6/8/5k2 b - - 0 1",
  "4k3/1P6/8/8/8/8/K7/8 w - - 0 1",
  "8/P1k5/K7/8/8/8/8/8 w - - 0 1",
  "K1k5/8/P7/8/8/8/8/8 w - - 0 1",
  "8/k1P5/8/1K6/8/8/8/8 w - - 0 1",
  "8/8/2k5/5q2/5n2/8/5K2/8 b - - 0 1",
  "r1bqkbnr/pppp1ppp/2n5/1B2p3/4P3/5N2/PPPP1PPP/RNBQK2R b KQkq - 3 3",
  "rnbqkb1r/pp1p1ppp/4pn2/2pP4/4P3/8/PPP2PPP/RNBQKBNR w KQkq c6 0 4",
  "4k3/8/8/2KPp2r/8/8/8/8 w - e6 0 1",
  "8/8/8/8/1kpP3R/8/8/4K3 b - d3 0 1",
  "4k3/4r3/8/8/8/4N3/8/4K3 w - - 0 1",
  "4k3/8/8/b7/8/2N5/3K4/8 w - - 0 1",
  "k7/8/8/3q4/8/3R4/3K4/8 w - - 0 1",
  "4k3/8/8/8/8/8/3p4/5K2 b - - 0 1",
  "n1n5/PPPk4/8/8/8/8/4Kppp/5N1N b - - 0 1",
  "r3k2r/pppppppp/8/8/8/8/PPPPPPPP/R3K2R w KQkq - 0 1",
  "8/3k4/8/8/8/8/3K4/R6r w - - 0 1",
  "6k1/5ppp/8/8/8/8/5PPP/R5K1 w - - 0 1",
  "7R/kp6/p7/P1P5/8/8/6B1/6K1 b - - 0 1",        \* ...b5 cxb6 e.p. is mate
  "8/6p1/7k/7P/7K/7P/8/6r1 b - - 0 1",           \* ...g5+ and hxg6 e.p. is the only reply
  "4k3/8/8/8/1pPp4/8/8/4K3 b - c3 0 1",          \* two capturers for one en-passant square
  "b7/8/8/3Pp3/8/6k1/4n3/7K w - e6 0 1",         \* stalemate: the only en-passant capturer is pinned
  "k2b4/4p3/8/3P4/7K/8/8/8 b - - 0 1",           \* ...e5 uncovers a check: the en-passant capture does not answer it
  "7k/5K2/5N2/8/7p/7P/P7/8 w - - 0 1",           \* a4 stalemates: the only enemy pawn near a4 stands across the board edge
  "6k1/8/8/8/8/8/r7/4K2R w K - 0 1"              \* castling out of a back-rank squeeze is one of very few moves
>>
RootSet ==
  LET idx  == IF Sub = 0 THEN 1..Len(RootFens) ELSE {((Sub - 1) % Len(RootFens)) + 1}
      base == {ReadFen(RootFens[i]) : i \in idx}
  IN base \cup {Mirror(p) : p \in base}

ASSUME \A i \in 1..Len(RootFens) : Valid(ReadFen(RootFens[i]))

Staged == Family # "ROOTS"
Done   == NStages + 1

Init ==
  /\ depth = 0
  /\ IF Staged
     THEN pos = NoPos /\ stage = 0 /\ ld = NoSq
     ELSE pos \in RootSet /\ stage = Done /\ ld = pos.ep

PlaceNext ==
  /\ Staged /\ stage < NStages
  /\ \E s \in StageSquares(stage + 1, pos.b) : \E p \in StageMen[stage + 1] :
        /\ pos.b[s] = Empty
        /\ (Kind(p) = "p") => RankOf(s) \in 1..6
        /\ pos' = [pos EXCEPT !.b[s] = p]
  /\ stage' = stage + 1
  /\ UNCHANGED <<depth, ld>>

Finish ==
  /\ Staged /\ stage = NStages
  /\ \E c \in StmChoices : \E r \in RightsChoices(pos.b) :
        LET p0 == [pos EXCEPT !.stm = c, !.cr = r]
            p  == IF Family \in MirroredFamilies THEN Mirror(p0) ELSE p0
        IN IF Valid(p) THEN pos' = p ELSE FALSE   \* IF: a guard, not an action disjunction
  /\ stage' = Done
  /\ UNCHANGED <<depth, ld>>

(***************************************************************************)
(* The record printed per expanded state.                                  *)
(***************************************************************************)
Diff(b, b2) == {<<s, b2[s]>> : s \in {s \in Squares : b[s] # b2[s]}}
(* a move entry: <<from, to, promo, changed squares, rights lost, allowed ep values,  *)
(*                 checkers of the successor, pinned men of the successor>>            *)
MoveRec(p, m) ==
  LET n == ApplyEp(p, m, NoSq)
  IN <<m.f, m.t, m.p, Diff(p.b, n.b), p.cr \ n.cr, EpAllowed(p, m), Checkers(n), PinnedRay(n.b, n.stm)>>

(* The placement travels inside "fen" (the replayer decodes it; Lemma1      *)
(* asserts ReadFen(WriteFen(p)) = p, so the text determines the board).     *)
Record(p, l, dep, ms) ==
  LET pl == Placement(p.b)
  IN [stm |-> p.stm, cr |-> p.cr, ep |-> p.ep, ld |-> l, dep |-> dep,
      chk |-> Checkers(p), pin |-> Pinned(p), st |-> StatusOf(p, ms),
      fen |-> FenFrom(pl, p, p.ep, " 0 1"),
      std |-> FenFrom(pl, p, l, " 0 1"),
      fa  |-> {FenFrom(pl, p, e, "") : e \in FenEpAllowed(p, l)},
      nul |-> NullAllowed(p),
      mv  |-> {MoveRec(p, m) : m \in ms}]
     @@ (IF San THEN [san |-> {<<m.f, m.t, m.p, SanSpellings(p, m, ms)>> : m \in ms},
                      rej |-> SanRejects(p, ms)]
         ELSE << >>)

EmitRec(p, l, dep, ms) == IF Emit THEN PrintT("REC " \o ToJson(Record(p, l, dep, ms))) ELSE TRUE

(***************************************************************************)
(* Spec-level forms of the listed properties, evaluated on every expanded  *)
(* state (they share ms with the next-state relation).                     *)
(***************************************************************************)
MaterialShrinks(p, n) ==
  \A c \in Colors : /\ NMen(n.b, c) <= NMen(p.b, c)
                    /\ Count(n.b, Pc(c, "p")) <= Count(p.b, Pc(c, "p"))

ChangedOK(p, m, n) ==      \* a move touches only the squares the rules name
  LET changed == {s \in Squares : p.b[s] # n.b[s]}
      allowed == {m.f, m.t}
                 \cup (IF IsEP(p, m) THEN {EpVictimSq(m)} ELSE {})
                 \cup (IF IsCastle(p, m) THEN {Sq(IF FileOf(m.t) = 6 THEN 7 ELSE 0, RankOf(m.f)),
                                               Sq(IF FileOf(m.t) = 6 THEN 5 ELSE 3, RankOf(m.f))} ELSE {})
      capt == IF IsCapture(p, m) THEN 1 ELSE 0
  IN /\ changed \subseteq allowed
     /\ n.b[m.f] = Empty
     /\ ColorOf(n.b[m.t]) = p.stm
     /\ NMen(n.b, p.stm) = NMen(p.b, p.stm)
     /\ NMen(n.b, Other(p.stm)) = NMen(p.b, Other(p.stm)) - capt
     /\ n.stm = Other(p.stm)
     /\ n.cr \subseteq p.cr

Lemma1(p, ms) ==
  /\ Valid(p)                                                         \* C05
  /\ Necessary(p)                                                     \* C05/C07
  /\ Cardinality(Checkers(p)) <= 2                                    \* C03
  /\ (Checkers(p) # {}) = InCheck(p.b, p.stm)                         \* C03
  /\ Pinned(p) \subseteq MenOf(p.b, p.stm) \ {KingSq(p.b, p.stm)}     \* C03
  /\ PinnedRay(p.b, p.stm) = Pinned(p)                               \* C03: two formulations agree
  /\ (StatusOf(p, ms) = "Checkmate") => InCheck(p.b, p.stm)           \* C04
  /\ (StatusOf(p, ms) = "Ongoing") = (ms # {})                        \* C04
  /\ \A m \in ms :                                                    \* C02, C05
        /\ p.b[m.f] # Empty /\ ColorOf(p.b[m.f]) = p.stm
        /\ Kind(p.b[m.t]) # "k"
        /\ (m.p # NoPromo) = (Kind(p.b[m.f]) = "p" /\ RankOf(m.t) = LastRank(p.stm))
        /\ \A n \in Succ(p, m) : ChangedOK(p, m, n) /\ MaterialShrinks(p, n)
        /\ Apply(p, m) \in Succ(p, m)
  /\ NullAllowed(p) =>                                                \* C18
        LET q == NullMove(p) IN q.b = p.b /\ q.cr = p.cr /\ q.stm # p.stm /\ q.ep = NoSq
                                /\ ~InCheck(q.b, Other(q.stm))
  /\ ReadFen(WriteFen(p)) = p                                         \* C06
  /\ Mirror(Mirror(p)) = p                                            \* C17

Lemma2(p, ms) ==
  LET q == Mirror(p)
  IN /\ ImplLegal(p) = ms                                            \* C01: the library's algorithm is right by design
     /\ LegalMoves(q) = {MirrorMv(m) : m \in ms}
     /\ Checkers(q) = {MirrorSq(s) : s \in Checkers(p)}
     /\ Pinned(q) = {MirrorSq(s) : s \in Pinned(p)}
     /\ Valid(q)
     /\ \A m \in ms : Mirror(Apply(p, m)) = Apply(q, MirrorMv(m))
     /\ p.cr = {} =>
          LET r == Flip(p)
          IN /\ LegalMoves(r) = {FlipMv(m) : m \in ms}
             /\ Checkers(r) = {FlipSq(s) : s \in Checkers(p)}
             /\ Pinned(r) = {FlipSq(s) : s \in Pinned(p)}
             /\ \A m \in ms : Flip(Apply(p, m)) = Apply(r, FlipMv(m))

LemmasOK(p, ms) ==
  /\ (Lemmas >= 1) => Assert(Lemma1(p, ms), <<"spec lemma 1 fails at", WriteFen(p)>>)
  /\ (Lemmas >= 2) => Assert(Lemma2(p, ms), <<"spec lemma 2 (mirror/flip) fails at", WriteFen(p)>>)

FirstPly(p, ms) ==   \* EP families: the first ply is the double push of the staged pawn
  IF depth = 0 /\ Family \in {"EPw","EPb","EPXw","EPXb","EPALLw","EPALLb","EP2w","EP2b","EPRRw","EPRRb","EPBBw","EPBBb","EPEDGEw","EPEDGEb"} THEN {m \in ms : IsDouble(p, m)} ELSE ms

Play ==
  /\ stage = Done
  /\ LET ms == LegalMoves(pos)
     IN /\ EmitRec(pos, ld, depth, ms)
        /\ LemmasOK(pos, ms)
        /\ (MaxDepth >= 999 \/ depth < MaxDepth)
        /\ \E m \in FirstPly(pos, ms) : \E n \in Succ(pos, m) :
              /\ pos' = n
              /\ ld' = IF IsDouble(pos, m) THEN PassedOver(pos, m) ELSE NoSq
  /\ depth' = IF MaxDepth >= 999 THEN 0 ELSE depth + 1
  /\ UNCHANGED stage

Next == PlaceNext \/ Finish \/ Play
Spec == Init /\ [][Next]_vars
=============================================================================
