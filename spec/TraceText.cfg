SPECIFICATION TTSpec
POSTCONDITION Accepted
CHECK_DEADLOCK FALSE
