-------------------------------- MODULE Text --------------------------------
(***************************************************************************)
(* Notation: FEN (standard writer, the set of renderings the library may   *)
(* produce, and a reference reader), coordinate (UCI) move text, and SAN   *)
(* spellings.  Text is modelled as TLA+ strings (TLC supports \o, Len and  *)
(* SubSeq on strings).                                                     *)
(***************************************************************************)
EXTENDS Rules, TLC

Digit == <<"1","2","3","4","5","6","7","8">>
Ch(s, i) == SubSeq(s, i, i)

(* ---------------------------- FEN writer ------------------------------ *)
RECURSIVE RankStr(_, _, _, _)
RankStr(b, r, f, run) ==
  IF f > 7 THEN (IF run > 0 THEN Digit[run] ELSE "")
  ELSE IF b[Sq(f, r)] = Empty THEN RankStr(b, r, f + 1, run + 1)
  ELSE (IF run > 0 THEN Digit[run] ELSE "") \o b[Sq(f, r)] \o RankStr(b, r, f + 1, 0)

Placement(b) ==
  RankStr(b,7,0,0) \o "/" \o RankStr(b,6,0,0) \o "/" \o RankStr(b,5,0,0) \o "/" \o
  RankStr(b,4,0,0) \o "/" \o RankStr(b,3,0,0) \o "/" \o RankStr(b,2,0,0) \o "/" \o
  RankStr(b,1,0,0) \o "/" \o RankStr(b,0,0,0)

CastleField(cr) ==
  IF cr = {} THEN "-"
  ELSE (IF "K" \in cr THEN "K" ELSE "") \o (IF "Q" \in cr THEN "Q" ELSE "") \o
       (IF "k" \in cr THEN "k" ELSE "") \o (IF "q" \in cr THEN "q" ELSE "")

EpField(e) == IF e = NoSq THEN "-" ELSE SqNameT[e]

FenFrom(pl, pos, e, tail) ==      \* pl is Placement(pos.b), computed once by the caller
  pl \o " " \o pos.stm \o " " \o CastleField(pos.cr) \o " " \o EpField(e) \o tail
FenWith(pos, e, tail) == FenFrom(Placement(pos.b), pos, e, tail)

(* The position's own FEN (en-passant field as recorded in the position). *)
WriteFen(pos) == FenWith(pos, pos.ep, " 0 1")

(* The independent standard writer: records the passed-over square after   *)
(* EVERY double push; ld is the square passed over by the last move if it  *)
(* was a double push, else NoSq.                                           *)
StdFen(pos, ld) == FenWith(pos, ld, " 0 1")

(* What the library may print for the first four fields: en-passant field  *)
(* "-" or the passed-over square; present whenever a legal en-passant      *)
(* capture exists; "-" unless the last move was a double push.             *)
FenEpAllowed(pos, ld) ==
  IF ld = NoSq THEN {NoSq}
  ELSE IF EpCaptures([pos EXCEPT !.ep = ld]) # {} THEN {ld} ELSE {ld, NoSq}
FenPrefixAllowed(pos, ld) == {FenWith(pos, e, "") : e \in FenEpAllowed(pos, ld)}

(* ---------------------------- FEN reader ------------------------------ *)
(* Reference reader for well-formed FEN (first four fields). *)
RECURSIVE SplitAt(_, _, _, _)
SplitAt(s, i, start, sep) ==        \* sequence of fields of s separated by sep
  IF i > Len(s) THEN <<SubSeq(s, start, Len(s))>>
  ELSE IF Ch(s, i) = sep THEN <<SubSeq(s, start, i - 1)>> \o SplitAt(s, i + 1, i + 1, sep)
  ELSE SplitAt(s, i + 1, start, sep)
Split(s, sep) == SplitAt(s, 1, 1, sep)

DigitVal(c) == CASE c = "1" -> 1 [] c = "2" -> 2 [] c = "3" -> 3 [] c = "4" -> 4
                 [] c = "5" -> 5 [] c = "6" -> 6 [] c = "7" -> 7 [] c = "8" -> 8 [] OTHER -> 0
FileVal(c) == CASE c = "a" -> 0 [] c = "b" -> 1 [] c = "c" -> 2 [] c = "d" -> 3
                [] c = "e" -> 4 [] c = "f" -> 5 [] c = "g" -> 6 [] c = "h" -> 7 [] OTHER -> -1
ParseSq(s) == Sq(FileVal(Ch(s, 1)), DigitVal(Ch(s, 2)) - 1)

RECURSIVE RankCells(_, _)
RankCells(s, i) ==                  \* the eight cells of one FEN rank, as a sequence
  IF i > Len(s) THEN <<>>
  ELSE LET c == Ch(s, i)
       IN IF DigitVal(c) > 0 THEN [k \in 1..DigitVal(c) |-> Empty] \o RankCells(s, i + 1)
          ELSE <<c>> \o RankCells(s, i + 1)

ReadFen(s) ==
  LET fld   == Split(s, " ")
      ranks == Split(fld[1], "/")
      cells == [r \in 0..7 |-> RankCells(ranks[8 - r], 1)]
  IN [b   |-> [q \in Squares |-> cells[RankOf(q)][FileOf(q) + 1]],
      stm |-> fld[2],
      cr  |-> {x \in {"K","Q","k","q"} : \E i \in 1..Len(fld[3]) : Ch(fld[3], i) = x},
      ep  |-> IF fld[4] = "-" THEN NoSq ELSE ParseSq(fld[4])]

(* ------------------------- coordinate (UCI) text ---------------------- *)
Uci(m) == SqNameT[m.f] \o SqNameT[m.t] \o (IF m.p = NoPromo THEN "" ELSE m.p)
IsPrefixStr(p, s) == Len(p) <= Len(s) /\ SubSeq(s, 1, Len(p)) = p

=============================================================================
