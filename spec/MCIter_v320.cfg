SPECIFICATION Spec
CONSTANTS
  AllSquares = {10, 11, 12, 13, 20, 21}
  ImplSquares = {10, 11, 12, 13, 20, 21}
  Variant = "v320"
  MaxRemovals = 2
  MaxMasks = 3
INVARIANT LenRight
INVARIANT OwedRight
INVARIANT NextAllowed
INVARIANT RemoveMoveAllowed
INVARIANT Complete
CHECK_DEADLOCK FALSE
