----------------------------- MODULE MoveGenImpl -----------------------------
(***************************************************************************)
(* An implementation-shaped model of the library's MoveGen iterator: a     *)
(* list of entries (source square, set of destinations, promotion flag),   *)
(* a cursor, a promotion cursor and the iterator mask, with the partition  *)
(* invariant "the entries that still intersect the mask come first".       *)
(* It follows src/movegen/movegen.rs action by action, so that TLC can     *)
(* check - over every call sequence on small universes - that this         *)
(* algorithm refines the contract of module MoveGenIter: that is a check   *)
(* of the design the code implements, complementing the conformance        *)
(* checks of the code itself.                                              *)
(*                                                                         *)
(* Variant selects the algorithm: "fixed" is the repaired library,         *)
(* "v320" the released 3.2.0 behaviour (len from the first entry, early    *)
(* return in remove_move, no re-partition after removals), kept so that    *)
(* the model checker demonstrably finds those defects.                     *)
(***************************************************************************)
EXTENDS Integers, Sequences, FiniteSets

CONSTANTS ImplSquares, Variant

Promos == <<"q", "n", "r", "b">>       \* the library's promotion order

VARIABLES entries, index, pidx, imask
implvars == <<entries, index, pidx, imask>>

Live(e) == e.bb \cap imask # {}
MinOf(S) == CHOOSE x \in S : \A y \in S : x <= y

(* the moves an entry list still owes under a mask *)
EntryMoves(e) ==
  IF e.promo THEN {[f |-> e.sq, t |-> t, p |-> Promos[k]] : t \in e.bb, k \in 1..4}
  ELSE {[f |-> e.sq, t |-> t, p |-> "-"] : t \in e.bb}

(* entries built from a set of legal moves: one entry per source, plus a   *)
(* separate single-destination entry for each move marked as en passant    *)
RECURSIVE SeqOfSet(_)
SeqOfSet(S) == IF S = {} THEN <<>> ELSE LET x == MinOf(S) IN <<x>> \o SeqOfSet(S \ {x})

MkEntries(legal, epmoves) ==
  LET normal == legal \ epmoves
      srcs   == SeqOfSet({m.f : m \in normal})
      main   == [i \in 1..Len(srcs) |->
                   [sq |-> srcs[i], bb |-> {m.t : m \in {x \in normal : x.f = srcs[i]}},
                    promo |-> \E x \in normal : x.f = srcs[i] /\ x.p # "-"]]
      eps    == SeqOfSet({m.f : m \in epmoves})
      extra  == [i \in 1..Len(eps) |->
                   [sq |-> eps[i], bb |-> {m.t : m \in {x \in epmoves : x.f = eps[i]}}, promo |-> FALSE]]
  IN main \o extra

MNew(legal, epmoves) ==
  /\ entries' = MkEntries(legal, epmoves) /\ index' = 0 /\ pidx' = 0 /\ imask' = ImplSquares

(* set_iterator_mask: reset the cursor and partition (stable for live entries) *)
Partition(es, M) ==
  LET live == SelectSeq(es, LAMBDA e : e.bb \cap M # {})
      dead == SelectSeq(es, LAMBDA e : e.bb \cap M = {})
  IN live \o dead
MSetMask(M) ==
  /\ imask' = M /\ index' = 0 /\ entries' = Partition(entries, M) /\ UNCHANGED pidx

(* next() *)
MNextIsNone == index >= Len(entries) \/ ~Live(entries[index + 1])
MNextResult ==
  LET e == entries[index + 1]
      d == MinOf(e.bb \cap imask)
  IN [f |-> e.sq, t |-> d, p |-> IF e.promo THEN Promos[pidx + 1] ELSE "-"]
MNext ==
  IF MNextIsNone THEN UNCHANGED implvars
  ELSE LET e == entries[index + 1]
           d == MinOf(e.bb \cap imask)
           consumed == (~e.promo) \/ pidx + 1 >= 4
           bb2 == IF consumed THEN e.bb \ {d} ELSE e.bb
       IN /\ entries' = [entries EXCEPT ![index + 1].bb = bb2]
          /\ pidx' = IF e.promo /\ ~consumed THEN pidx + 1 ELSE 0
          /\ index' = IF consumed /\ bb2 \cap imask = {} THEN index + 1 ELSE index
          /\ UNCHANGED imask

(* len() *)
RECURSIVE LenFrom(_, _)
LenFrom(i, first) ==
  IF i > Len(entries) \/ ~Live(entries[i]) THEN 0
  ELSE LET e == entries[i]
           n == Cardinality(e.bb \cap imask)
       IN (IF e.promo THEN 4 * n - (IF first THEN pidx ELSE 0) ELSE n) + LenFrom(i + 1, FALSE)
MLen == IF Variant = "v320" THEN LenFrom(1, FALSE) ELSE LenFrom(index + 1, TRUE)

(* remove_mask / remove_move *)
Repartition(es) == IF Variant = "v320" THEN es ELSE Partition(es, imask)
MRemoveMask(M) ==
  /\ entries' = Repartition([i \in 1..Len(entries) |-> [entries[i] EXCEPT !.bb = @ \ M]])
  /\ index' = IF Variant = "v320" THEN index ELSE 0
  /\ UNCHANGED <<pidx, imask>>

FirstWithSource(s) ==
  LET I == {i \in 1..Len(entries) : entries[i].sq = s} IN IF I = {} THEN 0 ELSE MinOf(I)
MRemoveMove(x) ==
  /\ entries' = Repartition(
        IF Variant = "v320"
        THEN (LET i == FirstWithSource(x.f)
              IN IF i = 0 THEN entries ELSE [entries EXCEPT ![i].bb = @ \ {x.t}])
        ELSE [i \in 1..Len(entries) |->
                IF entries[i].sq = x.f THEN [entries[i] EXCEPT !.bb = @ \ {x.t}] ELSE entries[i]])
  /\ index' = IF Variant = "v320" THEN index ELSE 0
  /\ UNCHANGED <<pidx, imask>>

(* what the implementation still owes: used to state the refinement *)
Owed ==
  LET all == UNION {EntryMoves(entries[i]) : i \in 1..Len(entries)}
      cur == IF index < Len(entries) /\ entries[index + 1].promo /\ pidx > 0
             THEN LET e == entries[index + 1]
                      d == MinOf(e.bb \cap imask)
                  IN {[f |-> e.sq, t |-> d, p |-> Promos[k]] : k \in 1..pidx}
             ELSE {}
  IN all \ cur
=============================================================================
