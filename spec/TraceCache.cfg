SPECIFICATION TCSpec
CONSTANTS
  ZeroTag = "0"
  Key <- PairKey
POSTCONDITION Accepted
CHECK_DEADLOCK FALSE
