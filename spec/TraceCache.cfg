SPECIFICATION TCSpec
CONSTANT ZeroTag = "0"
POSTCONDITION Accepted
CHECK_DEADLOCK FALSE
