------------------------------ MODULE TraceCache ------------------------------
(* Trace validation of recorded CacheTable scripts: every return value of   *)
(* get, and whether new(n) panicked, must be what the model prescribes.     *)
EXTENDS CacheTable, Json, IOUtils, TLC

Rec == ndJsonDeserialize(IOEnv.TRACE)
VARIABLES l, size, def, slot
tcvars == <<l, size, def, slot>>

IsEv(e) == l <= Len(Rec) /\ Rec[l].op = e /\ l' = l + 1
H(r) == <<r.tag, r.idx>>
PredOf(r) == [k |-> r.pk, x |-> r.px]

TNew ==
  /\ IsEv("new")
  /\ LET r == Rec[l]
     IN /\ (r.panicked = ~IsPow2(r.n)) = TRUE
        /\ IF r.panicked THEN UNCHANGED <<size, def, slot>>
           ELSE size' = r.n /\ def' = r.def /\ slot' = << >>
TAdd == /\ IsEv("add") /\ (Rec[l].idx < size) = TRUE
        /\ slot' = AddOp(slot, H(Rec[l]), Rec[l].v) /\ UNCHANGED <<size, def>>
TRep == /\ IsEv("replace_if") /\ (Rec[l].idx < size) = TRUE
        /\ slot' = ReplaceIfOp(slot, def, H(Rec[l]), Rec[l].v, PredOf(Rec[l]))
        /\ (Rec[l].called_with = SlotOf(slot, def, Rec[l].idx).v) = TRUE   \* the predicate saw the slot's current value
        /\ UNCHANGED <<size, def>>
TGet == /\ IsEv("get") /\ (Rec[l].idx < size) = TRUE
        /\ LET g == GetOp(slot, def, H(Rec[l]))
           IN (IF g[1] = "some" THEN Rec[l].some /\ Rec[l].v = g[2] ELSE ~Rec[l].some) = TRUE
        /\ UNCHANGED <<size, def, slot>>

TCInit == l = 1 /\ size = 1 /\ def = 0 /\ slot = << >>
TCNext == TNew \/ TAdd \/ TRep \/ TGet
TCSpec == TCInit /\ [][TCNext]_tcvars
Accepted ==
  LET d == TLCGet("stats").diameter - 1
  IN IF d = Len(Rec) THEN PrintT(<<"TRACE-ACCEPTED", d>>)
     ELSE PrintT(<<"TRACE-REJECTED-AT-LINE", d + 1, "of", Len(Rec)>>) /\ FALSE
=============================================================================
