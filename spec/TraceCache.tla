------------------------------ MODULE TraceCache ------------------------------
(* Trace validation of recorded CacheTable scripts: every return value of   *)
(* get, and whether new(n) panicked, must be what the model prescribes.     *)
EXTENDS CacheTable, Json, IOUtils, TLC
(* Values are pairs [k, a]: the value type of the harness compares (==, <) by k only, while a distinguishes every  *)
(* write; a lookup must return exactly the pair that was written (cfg: Key <- PairKey).                            *)
PairKey(v) == v.k
Val(r) == [k |-> r.v, a |-> r.aux]

Rec == ndJsonDeserialize(IOEnv.TRACE)
VARIABLES l, size, def, slot
tcvars == <<l, size, def, slot>>

IsEv(e) == l <= Len(Rec) /\ Rec[l].op = e /\ l' = l + 1
H(r) == <<r.tag, r.idx>>      \* tag: the 64-bit hash (decimal text); idx: its slot class as observed by the harness (hash 0: class 0)
PredOf(r) == [k |-> r.pk, x |-> r.px]

TNew ==
  /\ IsEv("new")
  /\ LET r == Rec[l]
     IN /\ (r.panicked = ~IsPow2(r.n)) = TRUE
        /\ IF r.panicked THEN UNCHANGED <<size, def, slot>>
           ELSE size' = r.n /\ def' = [k |-> r.def, a |-> 0] /\ slot' = << >>
TAdd == /\ IsEv("add") /\ (Rec[l].idx < size) = TRUE
        /\ slot' = AddOp(slot, H(Rec[l]), Val(Rec[l])) /\ UNCHANGED <<size, def>>
TRep == /\ IsEv("replace_if") /\ (Rec[l].idx < size) = TRUE
        /\ slot' = ReplaceIfOp(slot, def, H(Rec[l]), Val(Rec[l]), PredOf(Rec[l]))
        /\ (/\ Rec[l].called_with = SlotOf(slot, def, Rec[l].idx).v.k       \* the predicate saw the slot's current value
            /\ Rec[l].called_aux = SlotOf(slot, def, Rec[l].idx).v.a) = TRUE
        /\ UNCHANGED <<size, def>>
TGet == /\ IsEv("get") /\ (Rec[l].idx < size) = TRUE
        /\ LET g == GetOp(slot, def, H(Rec[l]))
           IN (IF g[1] = "some" THEN Rec[l].some /\ Val(Rec[l]) = g[2] ELSE ~Rec[l].some) = TRUE
        /\ UNCHANGED <<size, def, slot>>

(* The harness found out which hashes share a slot by watching evictions on a scratch table of this size (it   *)
(* never computes a slot itself - the property does not say which slot a hash is kept in).  A table of n slots *)
(* cannot keep more than n hashes apart; more classes than slots means entries live outside the table.         *)
TProbe == /\ IsEv("probe")
          /\ (Rec[l].panicked = FALSE /\ Rec[l].classes <= Rec[l].n) = TRUE
          /\ UNCHANGED <<size, def, slot>>

(* a payload type whose equality is not reflexive (NaN): stored and returned like any other, no panic *)
TNan == /\ IsEv("nan") /\ (Rec[l].panicked = FALSE /\ Rec[l].ok = TRUE) = TRUE /\ UNCHANGED <<size, def, slot>>

TCInit == l = 1 /\ size = 1 /\ def = [k |-> 0, a |-> 0] /\ slot = << >>
TCNext == TNew \/ TAdd \/ TRep \/ TGet \/ TNan \/ TProbe
TCSpec == TCInit /\ [][TCNext]_tcvars
Accepted ==
  LET d == TLCGet("stats").diameter - 1
  IN IF d = Len(Rec) THEN PrintT(<<"TRACE-ACCEPTED", d>>)
     ELSE PrintT(<<"TRACE-REJECTED-AT-LINE", d + 1, "of", Len(Rec)>>) /\ FALSE
=============================================================================
