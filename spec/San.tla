--------------------------------- MODULE San ---------------------------------
(***************************************************************************)
(* Standard algebraic notation: the admissible spellings of a legal move   *)
(* and well-formed texts that must be rejected.  Kept apart from Text.tla  *)
(* so that models which do not print SAN tables do not depend on it.       *)
(***************************************************************************)
EXTENDS Text

(* ------------------------------- SAN ----------------------------------- *)
(* Every admissible spelling of a legal move, as the library documents the *)
(* notation (FIDE Appendix C): piece letter; no, file, rank or full        *)
(* disambiguation - whichever leaves exactly one legal move of that kind   *)
(* to that square; pawn captures name the source file; "x" on captures     *)
(* including en passant; destination; promotion letter without "=";        *)
(* nothing or the correct "+" / "#"; optional " e.p." on en-passant        *)
(* captures; castling as O-O / O-O-O with the same suffix rule.            *)
UpperKind(k) == Upper[k]
FileCh(s) == FileNames[FileOf(s) + 1]
RankCh(s) == RankNames[RankOf(s) + 1]

CheckSuffixes(pos, m) ==
  LET n == Apply(pos, m)
  IN IF ~InCheck(n.b, n.stm) THEN {""}
     ELSE IF LegalMoves(n) = {} THEN {"", "#"} ELSE {"", "+"}

SanCores(pos, m, ms) ==       \* spellings without check suffix / e.p. marker
  LET b  == pos.b
      k  == Kind(b[m.f])
      cap == IsCapture(pos, m)
      x  == IF cap THEN "x" ELSE ""
      dest == SqNameT[m.t]
  IN IF IsCastle(pos, m) THEN {IF FileOf(m.t) = 6 THEN "O-O" ELSE "O-O-O"}
     ELSE IF k = "p"
     THEN {(IF cap THEN FileCh(m.f) ELSE "") \o x \o dest \o (IF m.p = NoPromo THEN "" ELSE UpperKind(m.p))}
     ELSE LET same == {y \in ms : Kind(b[y.f]) = k /\ y.t = m.t}        \* rivals for this text
              dis  == (IF Cardinality(same) = 1 THEN {""} ELSE {})
                      \cup (IF Cardinality({y \in same : FileOf(y.f) = FileOf(m.f)}) = 1 THEN {FileCh(m.f)} ELSE {})
                      \cup (IF Cardinality({y \in same : RankOf(y.f) = RankOf(m.f)}) = 1 THEN {RankCh(m.f)} ELSE {})
                      \cup {SqNameT[m.f]}
          IN {UpperKind(k) \o d \o x \o dest : d \in dis}

SanSpellings(pos, m, ms) ==
  LET cores == SanCores(pos, m, ms)
      sufs  == CheckSuffixes(pos, m)
      eps   == IF IsEP(pos, m) THEN {"", " e.p."} ELSE {""}
  IN {c \o s \o e : c \in cores, s \in sufs, e \in eps}

(* Well-formed texts that must be REJECTED: they fit no legal move, or more *)
(* than one.                                                                *)
SanRejects(pos, ms) ==
  LET b == pos.b
      officers == {"n", "b", "r", "q", "k"}
      \* (castling counts as a king move to its destination: "Kg1" for O-O is left open, not demanded rejected)
      goes(k, t) == {y \in ms : Kind(b[y.f]) = k /\ y.t = t}
      \* ambiguous: two or more officers of one kind reach the square and no disambiguation is given
      ambiguous == UNION {{UpperKind(k) \o (IF b[t] # Empty THEN "x" ELSE "") \o SqNameT[t] :
                             t \in {t \in Squares : Cardinality(goes(k, t)) >= 2}} : k \in officers}
      \* a file (or rank) given as disambiguation that still leaves two candidates
      ambfile == UNION {UNION {{UpperKind(k) \o FileNames[f + 1] \o (IF b[t] # Empty THEN "x" ELSE "") \o SqNameT[t] :
                                  t \in {t \in Squares : Cardinality({y \in goes(k, t) : FileOf(y.f) = f}) >= 2}} : f \in 0..7} : k \in officers}
      ambrank == UNION {UNION {{UpperKind(k) \o RankNames[r + 1] \o (IF b[t] # Empty THEN "x" ELSE "") \o SqNameT[t] :
                                  t \in {t \in Squares : Cardinality({y \in goes(k, t) : RankOf(y.f) = r}) >= 2}} : r \in 0..7} : k \in officers}
      \* nothing of that kind goes there at all
      nothing == UNION {{UpperKind(k) \o (IF b[t] # Empty THEN "x" ELSE "") \o SqNameT[t] :
                           t \in {t \in Squares : goes(k, t) = {}}} : k \in officers}
      \* a wrong file given as disambiguation
      wrongfile == {UpperKind(Kind(b[y.f])) \o FileNames[((FileOf(y.f) + 3) % 8) + 1] \o (IF b[y.t] # Empty THEN "x" ELSE "") \o SqNameT[y.t] :
                       y \in {y \in ms : Kind(b[y.f]) \in officers /\ ~IsCastle(pos, y)
                                         /\ ~\E z \in ms : Kind(b[z.f]) = Kind(b[y.f]) /\ z.t = y.t /\ FileOf(z.f) = (FileOf(y.f) + 3) % 8}}
      \* pawn pushes to squares no pawn can reach; castling that is not available
      pawnno == {SqNameT[t] : t \in {t \in Squares : RankOf(t) \in 1..6 /\ ~\E y \in ms : Kind(b[y.f]) = "p" /\ y.t = t /\ y.p = NoPromo}}
      \* pawn "captures" that no pawn can make (a push written with x, a capture from the wrong file ...)
      pawncapno == UNION {{FileNames[f] \o "x" \o SqNameT[t] \o pr :
                              t \in {t \in Squares : ~\E y \in ms : Kind(b[y.f]) = "p" /\ FileOf(y.f) = f - 1 /\ y.t = t
                                                                     /\ FileOf(y.f) # FileOf(y.t)}} :
                          f \in 1..8, pr \in {""}}
      \* a quiet move of an officer written as a capture: nothing stands on the square (an officer never captures en passant)
      quietx == UNION {{UpperKind(Kind(b[y.f])) \o d \o "x" \o SqNameT[y.t] : d \in {"", FileCh(y.f), RankCh(y.f)}} :
                          y \in {y \in ms : Kind(b[y.f]) \in officers /\ b[y.t] = Empty /\ ~IsCastle(pos, y)}}
      nocastle == {c \in {"O-O", "O-O-O"} : ~\E y \in ms : IsCastle(pos, y) /\ (FileOf(y.t) = 6) = (c = "O-O")}
      \* destinations that are not on the board at all
      offboard == {UpperKind(k) \o FileNames[f] \o d : k \in officers, f \in 1..8, d \in {"0", "9"}}
                  \cup {FileNames[f] \o d : f \in 1..8, d \in {"0", "9"}}
                  \cup {UpperKind(k) \o c \o RankNames[r] : k \in officers, c \in {"i", "j"}, r \in 1..8}
  IN ambiguous \cup ambfile \cup ambrank \cup nothing \cup wrongfile \cup pawnno \cup pawncapno \cup quietx \cup nocastle \cup offboard
=============================================================================
