------------------------------ MODULE Geometry ------------------------------
(***************************************************************************)
(* The chess board as pure geometry: squares, rays, leaper tables, pawn    *)
(* steps, between/line, and the set-of-squares abstraction of a bitboard.  *)
(* Squares are 0..63 with file = s % 8 and rank = s \div 8 (a1 = 0,        *)
(* h1 = 7, a8 = 56), which is the numbering the library's Square::to_index *)
(* exposes, so that projecting the implementation is a transliteration.    *)
(* Everything here is a constant; TLC evaluates each table once.           *)
(***************************************************************************)
EXTENDS Integers, Sequences, FiniteSets

Squares   == 0..63
NoSq      == -1
FileOf(s) == s % 8
RankOf(s) == s \div 8
Sq(f, r)  == r * 8 + f
OnBoard(f, r) == f \in 0..7 /\ r \in 0..7

Colors   == {"w", "b"}
Other(c) == IF c = "w" THEN "b" ELSE "w"
Fwd(c)   == IF c = "w" THEN 1 ELSE -1

Abs(x) == IF x < 0 THEN -x ELSE x
MinOf(S) == CHOOSE x \in S : \A y \in S : x <= y
MaxOf(S) == CHOOSE x \in S : \A y \in S : x >= y

(* Directions 1..4 are the rook's (E, W, N, S), 5..8 the bishop's. *)
Dirs == << <<1,0>>, <<-1,0>>, <<0,1>>, <<0,-1>>, <<1,1>>, <<1,-1>>, <<-1,1>>, <<-1,-1>> >>
RookDirs   == 1..4
BishopDirs == 5..8
AllDirs    == 1..8

(* Ray[s][d]: the squares met walking from s in direction d, nearest first. *)
Ray == [s \in Squares |-> [d \in AllDirs |->
          LET df == Dirs[d][1]
              dr == Dirs[d][2]
              n  == Cardinality({k \in 1..7 : OnBoard(FileOf(s) + k*df, RankOf(s) + k*dr)})
          IN [i \in 1..n |-> Sq(FileOf(s) + i*df, RankOf(s) + i*dr)]]]

RaySet(s, ds) == UNION {{Ray[s][d][i] : i \in 1..Len(Ray[s][d])} : d \in ds}
RookRays   == [s \in Squares |-> RaySet(s, RookDirs)]
BishopRays == [s \in Squares |-> RaySet(s, BishopDirs)]

KnightJumps == {<<1,2>>, <<2,1>>, <<-1,2>>, <<-2,1>>, <<1,-2>>, <<2,-1>>, <<-1,-2>>, <<-2,-1>>}
KnightT == [s \in Squares |->
              {Sq(FileOf(s)+j[1], RankOf(s)+j[2]) :
                  j \in {j \in KnightJumps : OnBoard(FileOf(s)+j[1], RankOf(s)+j[2])}}]
KingT   == [s \in Squares |->
              {t \in Squares : t # s /\ Abs(FileOf(t)-FileOf(s)) <= 1 /\ Abs(RankOf(t)-RankOf(s)) <= 1}]

(* Squares a pawn of colour c standing on s attacks. *)
PawnAttT == [c \in Colors |-> [s \in Squares |->
              {Sq(FileOf(s)+df, RankOf(s)+Fwd(c)) :
                  df \in {df \in {-1,1} : OnBoard(FileOf(s)+df, RankOf(s)+Fwd(c))}}]]
PawnAtt(c, s) == PawnAttT[c][s]

StartRank(c)   == IF c = "w" THEN 1 ELSE 6      \* where c's pawns start
DoubleRank(c)  == IF c = "w" THEN 3 ELSE 4      \* where a double push lands
LastRank(c)    == IF c = "w" THEN 7 ELSE 0      \* where c's pawns promote
BackRank(c)    == IF c = "w" THEN 0 ELSE 7
SeventhRank(c) == IF c = "w" THEN 6 ELSE 1

(* Quiet pawn steps from s given the set occ of occupied squares: one step *)
(* if the square ahead is empty, two only from the start rank and only     *)
(* through two empty squares.                                               *)
PawnPush(c, s, occ) ==
  LET f == FileOf(s)
      r == RankOf(s)
  IN IF ~OnBoard(f, r + Fwd(c)) \/ Sq(f, r + Fwd(c)) \in occ THEN {}
     ELSE {Sq(f, r + Fwd(c))}
          \cup (IF r = StartRank(c) /\ Sq(f, r + 2*Fwd(c)) \notin occ
                THEN {Sq(f, r + 2*Fwd(c))} ELSE {})

(* Sliding: squares reached on one ray up to and including the first        *)
(* occupied square.                                                         *)
RECURSIVE ReachFrom(_, _, _)
ReachFrom(ray, i, occ) ==
  IF i > Len(ray) THEN {}
  ELSE IF ray[i] \in occ THEN {ray[i]}
  ELSE {ray[i]} \cup ReachFrom(ray, i + 1, occ)
Reach(occ, s, d) == ReachFrom(Ray[s][d], 1, occ)
RookAtt(s, occ)   == UNION {Reach(occ, s, d) : d \in RookDirs}
BishopAtt(s, occ) == UNION {Reach(occ, s, d) : d \in BishopDirs}

(* The first occupied square on a ray, or NoSq. *)
RECURSIVE FirstFrom(_, _, _)
FirstFrom(ray, i, occ) ==
  IF i > Len(ray) THEN NoSq
  ELSE IF ray[i] \in occ THEN ray[i]
  ELSE FirstFrom(ray, i + 1, occ)
FirstOn(occ, s, d) == FirstFrom(Ray[s][d], 1, occ)

(* Alignment, between and line, straight from their definitions. *)
Aligned(a, b) ==
  /\ a # b
  /\ \/ FileOf(a) = FileOf(b) \/ RankOf(a) = RankOf(b)
     \/ Abs(FileOf(a) - FileOf(b)) = Abs(RankOf(a) - RankOf(b))
DirTo(a, b) == CHOOSE d \in AllDirs : \E i \in 1..Len(Ray[a][d]) : Ray[a][d][i] = b
Between(a, b) ==
  IF ~Aligned(a, b) THEN {}
  ELSE LET ray == Ray[a][DirTo(a, b)]
           n   == CHOOSE i \in 1..Len(ray) : ray[i] = b
       IN {ray[i] : i \in 1..(n - 1)}
Opp(d) == CASE d = 1 -> 2 [] d = 2 -> 1 [] d = 3 -> 4 [] d = 4 -> 3
            [] d = 5 -> 8 [] d = 8 -> 5 [] d = 6 -> 7 [] d = 7 -> 6
Line(a, b) ==
  IF ~Aligned(a, b) THEN {}
  ELSE LET d == DirTo(a, b) IN {a} \cup RaySet(a, {d, Opp(d)})

BetweenT == [a \in Squares |-> [b \in Squares |-> Between(a, b)]]
LineT    == [a \in Squares |-> [b \in Squares |-> Line(a, b)]]

RankSet(r) == {s \in Squares : RankOf(s) = r}
FileSet(f) == {s \in Squares : FileOf(s) = f}
AdjacentFiles(f) == {s \in Squares : Abs(FileOf(s) - f) = 1}
Edges == {s \in Squares : FileOf(s) \in {0,7} \/ RankOf(s) \in {0,7}}

(* One-step helpers: a square or NoSq at the edge ... *)
StepOpt(s, df, dr) == IF OnBoard(FileOf(s)+df, RankOf(s)+dr) THEN Sq(FileOf(s)+df, RankOf(s)+dr) ELSE NoSq
UpOpt(s)    == StepOpt(s, 0, 1)
DownOpt(s)  == StepOpt(s, 0, -1)
LeftOpt(s)  == StepOpt(s, -1, 0)
RightOpt(s) == StepOpt(s, 1, 0)
ForwardOpt(s, c)  == StepOpt(s, 0, Fwd(c))
BackwardOpt(s, c) == StepOpt(s, 0, -Fwd(c))
(* ... and the wrapping variants: the rank wraps within the file, the file *)
(* within the rank.                                                         *)
StepWrap(s, df, dr) == Sq((FileOf(s) + df + 8) % 8, (RankOf(s) + dr + 8) % 8)
UpWrap(s)    == StepWrap(s, 0, 1)
DownWrap(s)  == StepWrap(s, 0, -1)
LeftWrap(s)  == StepWrap(s, -1, 0)
RightWrap(s) == StepWrap(s, 1, 0)
ForwardWrap(s, c)  == StepWrap(s, 0, Fwd(c))
BackwardWrap(s, c) == StepWrap(s, 0, -Fwd(c))

(* A bitboard is a set of squares. *)
FlipRanks(S) == {Sq(FileOf(s), 7 - RankOf(s)) : s \in S}
FlipFiles(S) == {Sq(7 - FileOf(s), RankOf(s)) : s \in S}
SetSymDiff(A, B) == (A \ B) \cup (B \ A)
Compl(A) == Squares \ A

FileNames == <<"a","b","c","d","e","f","g","h">>
RankNames == <<"1","2","3","4","5","6","7","8">>
SqName(s) == FileNames[FileOf(s) + 1] \o RankNames[RankOf(s) + 1]
SqNameT == [s \in Squares |-> SqName(s)]
=============================================================================
