-------------------------------- MODULE Game --------------------------------
(***************************************************************************)
(* The game protocol: a start position and a log of accepted actions       *)
(* (moves, draw offers, accepts, resignations, draw declarations).         *)
(*                                                                         *)
(* Two formulations are kept side by side:                                 *)
(*  - declarative: everything is a function of (start, log): the current   *)
(*    position is the fold of the moves, the result is read off the        *)
(*    current position and the last action, a draw can be claimed iff the  *)
(*    current position occurred three times among all positions of the     *)
(*    game or the last FiftyLimit half-moves were all reversible;          *)
(*  - operational: cur, result, halfmove clock and the list of positions   *)
(*    since the last irreversible move, updated per action.                *)
(* TLC checks that they agree on every reachable state (module MCGame);    *)
(* the implementation is bound to them by replay (A) and trace validation  *)
(* (B, module TraceGame).                                                  *)
(***************************************************************************)
EXTENDS Text

CONSTANT FiftyLimit     \* 100 half-moves in chess; small in exhaustive configs

NoResult == "None"
Results == {"WhiteCheckmates", "BlackCheckmates", "WhiteResigns", "BlackResigns",
            "Stalemate", "DrawAccepted", "DrawDeclared"}

AMove(m)   == [a |-> "move", m |-> m]
AOffer(c)  == [a |-> "offer", c |-> c]
AAccept    == [a |-> "accept"]
ADeclare   == [a |-> "declare"]
AResign(c) == [a |-> "resign", c |-> c]

IsMoveAct(x) == x.a = "move"

(* ----------------------------- declarative ---------------------------- *)
MovesOf(log) == SelectSeq(log, IsMoveAct)

RECURSIVE PositionsFrom(_, _, _)
PositionsFrom(p, ms, i) ==      \* positions of the game: start and after every move
  IF i > Len(ms) THEN <<p>>
  ELSE <<p>> \o PositionsFrom(Apply(p, ms[i].m), ms, i + 1)
Positions(start, log) == PositionsFrom(start, MovesOf(log), 1)
CurOf(start, log) == LET ps == Positions(start, log) IN ps[Len(ps)]

SideAfter(start, log) ==        \* by parity, as a UI would count it
  IF Len(MovesOf(log)) % 2 = 0 THEN start.stm ELSE Other(start.stm)

ResultOf(cur, log) ==
  LET st == Status(cur)
  IN IF st = "Checkmate" THEN (IF cur.stm = "w" THEN "BlackCheckmates" ELSE "WhiteCheckmates")
     ELSE IF st = "Stalemate" THEN "Stalemate"
     ELSE IF Len(log) = 0 THEN NoResult
     ELSE LET x == log[Len(log)]
          IN CASE x.a = "accept"  -> "DrawAccepted"
               [] x.a = "declare" -> "DrawDeclared"
               [] x.a = "resign"  -> (IF x.c = "w" THEN "WhiteResigns" ELSE "BlackResigns")
               [] OTHER -> NoResult

(* An accept may succeed only if the latest action is an offer, or the     *)
(* latest action is a move whose mover offered a draw immediately before.  *)
AcceptCond(start, log) ==
  LET n == Len(log)
  IN \/ (n >= 1 /\ log[n].a = "offer")
     \/ (n >= 2 /\ log[n].a = "move" /\ log[n-1].a = "offer"
         /\ log[n-1].c = Other(SideAfter(start, log)))      \* the mover of log[n]

(* Irreversible = pawn move or capture, judged in the position it is played in. *)
Irreversible(p, m) == Kind(p.b[m.f]) = "p" \/ IsCapture(p, m)

RECURSIVE IrrFlags(_, _, _)
IrrFlags(p, ms, i) ==
  IF i > Len(ms) THEN <<>>
  ELSE <<Irreversible(p, ms[i].m)>> \o IrrFlags(Apply(p, ms[i].m), ms, i + 1)

FiftyDecl(start, log) ==
  LET ms == MovesOf(log)
      fl == IrrFlags(start, ms, 1)
      n  == Len(ms)
  IN n >= FiftyLimit /\ \A i \in (n - FiftyLimit + 1)..n : ~fl[i]

(* Position identity for repetition.  "Same en-passant possibility" can be  *)
(* read as the recorded field or as the set of legal en-passant captures;   *)
(* the recorded reading is the finer one.                                   *)
SameRecorded(p, q) == p = q
SameLegalEp(p, q) ==
  IF p = q THEN TRUE
  ELSE /\ p.b = q.b /\ p.stm = q.stm /\ p.cr = q.cr
       /\ EpCaptures(p) = EpCaptures(q)

Occurrences(ps, same(_, _)) ==
  Cardinality({i \in 1..Len(ps) : same(ps[i], ps[Len(ps)])})
ThreeMust(start, log) == Occurrences(Positions(start, log), SameRecorded) >= 3
ThreeMay(start, log)  == Occurrences(Positions(start, log), SameLegalEp) >= 3

(* The claim is REQUIRED to be available under ClaimMust and FORBIDDEN      *)
(* outside ClaimMay; they differ only in the en-passant reading.            *)
ClaimMust(start, log) ==
  ResultOf(CurOf(start, log), log) = NoResult /\ (FiftyDecl(start, log) \/ ThreeMust(start, log))
ClaimMay(start, log) ==
  ResultOf(CurOf(start, log), log) = NoResult /\ (FiftyDecl(start, log) \/ ThreeMay(start, log))

(* ----------------------------- operational ---------------------------- *)
VARIABLES start, log, cur, result, halfmove, seen, ret
gvars == <<start, log, cur, result, halfmove, seen, ret>>

ResultNow(c, lg) == ResultOf(c, lg)

GInit(p) ==
  /\ start = p /\ log = <<>> /\ cur = p
  /\ result = ResultOf(p, <<>>)
  /\ halfmove = 0 /\ seen = <<p>> /\ ret = "none"

Refuse == ret' = "refused" /\ UNCHANGED <<start, log, cur, result, halfmove, seen>>

Push(x, c2, hm2, seen2) ==
  /\ log' = Append(log, x) /\ cur' = c2 /\ halfmove' = hm2 /\ seen' = seen2
  /\ result' = ResultOf(c2, Append(log, x))
  /\ ret' = "ok" /\ UNCHANGED start

MoveOK(m) == result = NoResult /\ m \in LegalMoves(cur)
(* n is the successor actually reached (a member of Succ(cur, m)) *)
PushMove(m, n) ==
  IF Irreversible(cur, m) THEN Push(AMove(m), n, 0, <<n>>)
  ELSE Push(AMove(m), n, halfmove + 1, Append(seen, n))
TryMove(m) == IF MoveOK(m) THEN PushMove(m, Apply(cur, m)) ELSE Refuse

OfferDraw(c) == IF result = NoResult THEN Push(AOffer(c), cur, halfmove, seen) ELSE Refuse
Resign(c)    == IF result = NoResult THEN Push(AResign(c), cur, halfmove, seen) ELSE Refuse

(* accept: refused whenever the condition fails; where it holds the property *)
(* does not say the accept must succeed, so both outcomes are behaviours.    *)
AcceptDraw ==
  IF result = NoResult /\ AcceptCond(start, log)
  THEN Push(AAccept, cur, halfmove, seen) \/ Refuse
  ELSE Refuse

ClaimOp ==      \* operational claim test (recorded-field reading: claim REQUIRED)
  result = NoResult /\ (halfmove >= FiftyLimit \/ Cardinality({i \in 1..Len(seen) : seen[i] = cur}) >= 3)
ClaimOpMay ==   \* legal-capture reading: claim PERMITTED
  result = NoResult /\ (halfmove >= FiftyLimit
                        \/ Cardinality({i \in 1..Len(seen) : SameLegalEp(seen[i], cur)}) >= 3)

DeclareDraw == IF ClaimOp THEN Push(ADeclare, cur, halfmove, seen) ELSE Refuse

(* ------------------------- spec-level properties ---------------------- *)
LogFaithful ==
  /\ cur = CurOf(start, log)
  /\ cur.stm = SideAfter(start, log)
  /\ result = ResultOf(cur, log)

ResultRight ==
  /\ (result \in {"WhiteCheckmates", "BlackCheckmates"}) =>
        (Status(cur) = "Checkmate" /\ (result = "WhiteCheckmates") = (cur.stm = "b"))
  /\ (result = "Stalemate") => Status(cur) = "Stalemate"
  /\ (Status(cur) # "Ongoing") => result \in {"WhiteCheckmates", "BlackCheckmates", "Stalemate"}
  /\ (result \in {"WhiteResigns", "BlackResigns"}) =>
        (log[Len(log)].a = "resign" /\ (result = "WhiteResigns") = (log[Len(log)].c = "w"))
  /\ (result = "DrawAccepted") => (log[Len(log)].a = "accept" /\ AcceptCond(start, SubSeq(log, 1, Len(log) - 1)))
  /\ (result = "DrawDeclared") => (log[Len(log)].a = "declare" /\ ClaimMay(start, SubSeq(log, 1, Len(log) - 1)))

(* operational claim = declarative claim (under the recorded-field reading) *)
ClaimAgrees == ClaimOp = ClaimMust(start, log) /\ ClaimOpMay = ClaimMay(start, log)

(* once a result exists nothing changes any more *)
ResultFinal == [][result # NoResult => (result' = result /\ log' = log /\ cur' = cur /\ ret' = "refused")]_gvars
(* the log only grows, by one accepted action at a time *)
LogGrows == [][log' = log \/ (Len(log') = Len(log) + 1 /\ SubSeq(log', 1, Len(log)) = log)]_gvars
=============================================================================
