------------------------------ MODULE MCVocab -------------------------------
(***************************************************************************)
(* Prints the complete tables of module Vocab (one VREC record) and, for a *)
(* seeded sample of move pairs, the expected ordering (VORD records).      *)
(***************************************************************************)
EXTENDS Vocab, Json, TLC

CONSTANTS Pairs        \* number of sampled move pairs per source square

VARIABLES s, done
vv == <<s, done>>

Init == s \in Squares \cup {-1} /\ done = FALSE

Tables ==
  [color |-> [i \in 1..2 |-> ColorRec(IF i = 1 THEN "w" ELSE "b")],
   piece |-> [i \in 1..6 |-> PieceRec(i)],
   promo |-> PromotionKinds,
   cr |-> [i \in 1..4 |-> CrRec(i - 1)],
   sqrights |-> [i \in 1..2 |-> [q \in 1..64 |-> CrIdx(SquareRights(IF i = 1 THEN "w" ELSE "b", q - 1))]],
   rookfile |-> [q \in 1..64 |-> CrIdx(RookFileRights(q - 1))],
   kingside |-> [i \in 1..2 |-> KingsideSquares(IF i = 1 THEN "w" ELSE "b")],
   queenside |-> [i \in 1..2 |-> QueensideSquares(IF i = 1 THEN "w" ELSE "b")],
   castledest |-> CastleDestinations,
   ranknames |-> RankNamesV, filenames |-> FileNamesV, sqnames |-> [q \in 1..64 |-> SquareName(q - 1)],
   notarank |-> NotARank, notafile |-> NotAFile,
   bbtext |-> [q \in 1..64 |-> BitBoardText({q - 1})],
   bbtextsets |-> {<<S, BitBoardText(S)>> : S \in {{}, Squares, RankSet(0), FileSet(7), {0, 9, 18, 27, 36, 45, 54, 63}, KnightT[27], Edges}}]

Promos == <<"-", "p", "n", "b", "r", "q", "k">>
(* all moves from source f to a fixed stride of destinations and promotions, compared with all of the same from f2 *)
OrdRec(f) ==
  LET ts == {(f * 7 + 11 * k) % 64 : k \in 0..(Pairs - 1)} \cup {f, 0, 63}
      f2s == {f, (f + 1) % 64, (f + 63) % 64}
      ms == {<<f, t, Promos[i]>> : t \in ts, i \in 1..7}
      ns == {<<g, t, Promos[i]>> : g \in f2s, t \in ts, i \in 1..7}
  IN [f |-> f, cmp |-> {<<a, b, Cmp(MoveKey(a[1], a[2], a[3]), MoveKey(b[1], b[2], b[3]))>> : a \in ms, b \in ns}]

Next ==
  /\ ~done /\ done' = TRUE /\ UNCHANGED s
  /\ IF s = -1 THEN PrintT("VREC " \o ToJson(Tables)) ELSE PrintT("VORD " \o ToJson(OrdRec(s)))
Spec == Init /\ [][Next]_vv
=============================================================================
