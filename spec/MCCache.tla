------------------------------- MODULE MCCache -------------------------------
(* Every sequence of add / replace_if on a small table (all sizes in Sizes,  *)
(* NTags tags per slot, values 0..2, five predicates) up to MaxOps writes;   *)
(* in every state every get is compared: operational = declarative, and the *)
(* history is printed for replay into the real CacheTable.                   *)
EXTENDS CacheTable, Json, TLC
IdKey(v) == v           \* values are plain integers here (cfg: Key <- IdKey)

CONSTANTS Sizes, NTags, MaxOps, Emit
Default == 0
Vals == {1, 2}
Preds == {[k |-> "always", x |-> 0], [k |-> "never", x |-> 0], [k |-> "eq", x |-> 0], [k |-> "eq", x |-> 1],
          [k |-> "lt", x |-> 2], [k |-> "ge", x |-> 1]}

VARIABLES size, slot, log
cvars == <<size, slot, log>>
Hashes == {<<t, i>> : t \in 0..(NTags - 1), i \in 0..(size - 1)}

Init == size \in Sizes /\ slot = << >> /\ log = <<>>

GetsRight == \A h \in Hashes : GetOp(slot, Default, h) = GetDecl(log, Default, h)
OnlyStored ==    \* a hit returns what the most recent effective write to that slot stored under that hash
  \A h \in Hashes : GetOp(slot, Default, h)[1] = "some" =>
      \/ (h = <<0, 0>> /\ h[2] \notin DOMAIN slot /\ GetOp(slot, Default, h)[2] = Default)
      \/ \E n \in 1..Len(log) : log[n].h = h /\ log[n].v = GetOp(slot, Default, h)[2]

OpJson(x) == IF x.op = "add" THEN <<"add", x.h[1], x.h[2], x.v>>
             ELSE <<"replace_if", x.h[1], x.h[2], x.v, x.pred.k, x.pred.x>>
CRec == [size |-> size, log |-> [i \in 1..Len(log) |-> OpJson(log[i])],
         gets |-> {<<h[1], h[2], GetOp(slot, Default, h)>> : h \in Hashes}]

Next ==
  /\ (IF Emit THEN PrintT("CREC " \o ToJson(CRec)) ELSE TRUE)
  /\ Assert(GetsRight, <<"operational and declarative get differ", log>>)
  /\ Assert(OnlyStored, <<"a get returned something never stored under that hash", log>>)
  /\ Len(log) < MaxOps
  /\ \E h \in Hashes : \E v \in Vals :
       \/ /\ slot' = AddOp(slot, h, v)
          /\ log' = Append(log, [op |-> "add", h |-> h, v |-> v, pred |-> [k |-> "always", x |-> 0]])
       \/ \E p \in Preds :
          /\ slot' = ReplaceIfOp(slot, Default, h, v, p)
          /\ log' = Append(log, [op |-> "replace_if", h |-> h, v |-> v, pred |-> p])
  /\ UNCHANGED size
Spec == Init /\ [][Next]_cvars
=============================================================================
