SPECIFICATION Spec
CONSTANTS
  Family = "ROOTS"
  MaxDepth = 1
  Lemmas = 2
  Emit = TRUE
  Sub = 1
CHECK_DEADLOCK FALSE
