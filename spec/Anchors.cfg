SPECIFICATION Spec
CONSTANT Deep = FALSE
CHECK_DEADLOCK FALSE
