------------------------------- MODULE MCGeom -------------------------------
(***************************************************************************)
(* The finite geometric domains, enumerated completely from the            *)
(* definitions of module Geometry and printed for comparison with the      *)
(* library's tables and square arithmetic:                                 *)
(*   Mode = "geom"   : one GEOM record per square (leaper and pawn tables, *)
(*                     rank/file/adjacent/edge sets, between and line to   *)
(*                     all 64 partners, the 12 step helpers for both       *)
(*                     colours, pawn pushes/moves for every occupancy of   *)
(*                     the squares that matter);                           *)
(*   Mode = "slider" : one SLID record per (rook|bishop, square in SqSel)  *)
(*                     with the attack set for EVERY subset of the         *)
(*                     square's rays (ray walking, Geometry.RookAtt /      *)
(*                     BishopAtt).                                         *)
(***************************************************************************)
EXTENDS Geometry, Json, TLC

CONSTANTS Mode, SqSel

VARIABLES s, kind, done
gv == <<s, kind, done>>

Kinds2 == IF Mode = "slider" THEN {"r", "b"} ELSE {"g"}
Init == s \in (IF Mode = "slider" THEN SqSel ELSE Squares) /\ kind \in Kinds2 /\ done = FALSE

Opt(x) == x     \* NoSq is already -1

(* squares whose occupancy matters to a pawn of colour c on q: the one or two ahead and the two it attacks *)
PawnRelevant(c, q) ==
  {t \in Squares : FileOf(t) = FileOf(q) /\ (RankOf(t) - RankOf(q)) * Fwd(c) \in 1..2} \cup PawnAtt(c, q)

PawnTable(c, q) ==
  {<<occ, PawnPush(c, q, occ), PawnAtt(c, q) \cap occ>> : occ \in SUBSET PawnRelevant(c, q)}

(* square / rank / file index arithmetic: indices are taken modulo their range (Square::new(64) is a1,      *)
(* Rank::from_index(8) is the first rank), and the one-step moves of ranks and files wrap                      *)
ArithRec(q) ==
  [sqnew |-> [i \in 1..4 |-> (q + 64 * (i - 1)) % 64],                      \* Square::new(q + 64k) for k = 0..3
   rankfrom |-> [i \in 1..16 |-> (i - 1) % 8], filefrom |-> [i \in 1..16 |-> (i - 1) % 8],
   rankup |-> (RankOf(q) + 1) % 8, rankdown |-> (RankOf(q) + 7) % 8,
   fileright |-> (FileOf(q) + 1) % 8, fileleft |-> (FileOf(q) + 7) % 8,
   make |-> [r \in 1..8 |-> [f \in 1..8 |-> Sq(f - 1, r - 1)]]]

GeomRec(q) ==
  [s |-> q, name |-> SqName(q), file |-> FileOf(q), rank |-> RankOf(q), arith |-> ArithRec(q),
   king |-> KingT[q], knight |-> KnightT[q],
   pattw |-> PawnAtt("w", q), pattb |-> PawnAtt("b", q),
   rankset |-> RankSet(RankOf(q)), fileset |-> FileSet(FileOf(q)), adj |-> AdjacentFiles(FileOf(q)),
   edge |-> (q \in Edges),
   rookrays |-> RookRays[q], bishoprays |-> BishopRays[q],
   between |-> [b \in 1..64 |-> BetweenT[q][b - 1]],
   line |-> [b \in 1..64 |-> LineT[q][b - 1]],
   steps |-> [up |-> UpOpt(q), down |-> DownOpt(q), left |-> LeftOpt(q), right |-> RightOpt(q),
              fw |-> ForwardOpt(q, "w"), fb |-> ForwardOpt(q, "b"), bw |-> BackwardOpt(q, "w"), bb |-> BackwardOpt(q, "b"),
              uup |-> UpWrap(q), udown |-> DownWrap(q), uleft |-> LeftWrap(q), uright |-> RightWrap(q),
              ufw |-> ForwardWrap(q, "w"), ufb |-> ForwardWrap(q, "b"), ubw |-> BackwardWrap(q, "w"), ubb |-> BackwardWrap(q, "b")],
   pawnw |-> PawnTable("w", q), pawnb |-> PawnTable("b", q)]

SlidRec(k, q) ==
  LET rays == IF k = "r" THEN RookRays[q] ELSE BishopRays[q]
  IN [k |-> k, s |-> q, rays |-> rays,
      tab |-> {<<occ, IF k = "r" THEN RookAtt(q, occ) ELSE BishopAtt(q, occ)>> : occ \in SUBSET rays}]

Next ==
  /\ ~done /\ done' = TRUE /\ UNCHANGED <<s, kind>>
  /\ IF Mode = "slider" THEN PrintT("SLID " \o ToJson(SlidRec(kind, s)))
     ELSE PrintT("GEOM " \o ToJson(GeomRec(s)))
Spec == Init /\ [][Next]_gv

(* spec-level sanity of the definitions themselves *)
ASSUME \A a \in Squares, b \in Squares : Between(a, b) = Between(b, a) /\ Line(a, b) = Line(b, a)
ASSUME \A a \in Squares, b \in Squares : Aligned(a, b) => ({a, b} \cup Between(a, b)) \subseteq Line(a, b)
ASSUME \A a \in Squares : Cardinality(RookRays[a]) = 14 /\ Cardinality(BishopRays[a]) \in 7..13
ASSUME \A a \in Squares : \A b \in KnightT[a] : a \in KnightT[b]
ASSUME \A a \in Squares : RookAtt(a, {}) = RookRays[a] /\ BishopAtt(a, {}) = BishopRays[a]
=============================================================================
