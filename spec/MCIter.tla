------------------------------- MODULE MCIter -------------------------------
(***************************************************************************)
(* Model checking of the iterator design: the implementation-shaped model  *)
(* (MoveGenImpl) is run in lock step with the contract (MoveGenIter) over  *)
(* every call sequence of the contract's grammar on a small universe of    *)
(* moves (two officers sharing a destination, a promoting pawn with two    *)
(* destinations, a pawn that has a normal and an en-passant entry), with   *)
(* the length asked in every state.                                        *)
(***************************************************************************)
EXTENDS MoveGenIter, MoveGenImpl, TLC

CONSTANTS MaxRemovals, MaxMasks

M(f, t, p) == [f |-> f, t |-> t, p |-> p]
Legal ==
  {M(1, 10, "-"), M(1, 11, "-"), M(2, 10, "-"), M(2, 12, "-"), M(4, 12, "-"), M(4, 13, "-")}
  \cup {M(3, t, p) : t \in {20, 21}, p \in {"q", "n", "r", "b"}}
EpMoves == {M(4, 13, "-")}
Masks == {{10, 20}, {11, 12, 13, 21}, {13}, AllSquares}
RemMasks == {{10}, {12, 13}, {20, 21}}

VARIABLES nrem, nmask, started
mvars == <<ivars, implvars, nrem, nmask, started>>

Init ==
  /\ started = FALSE /\ nrem = 0 /\ nmask = 0
  /\ remaining = {} /\ mask = AllSquares /\ pristine = TRUE /\ fresh = TRUE /\ out = [op |-> "none"]
  /\ entries = <<>> /\ index = 0 /\ pidx = 0 /\ imask = ImplSquares

(* the length must be right in EVERY state *)
LenRight == started => MLen = Cardinality(Avail(remaining, mask))
(* the implementation owes exactly what the contract says is still owed *)
OwedRight == started => Owed = remaining

Start == ~started /\ started' = TRUE /\ INew(Legal) /\ MNew(Legal, EpMoves) /\ UNCHANGED <<nrem, nmask>>

StepNext ==
  /\ started /\ UNCHANGED <<nrem, nmask, started>>
  /\ MNext
  /\ IF MNextIsNone THEN INextNone ELSE INextSome(MNextResult)

StepSetMask ==
  /\ started /\ nmask < MaxMasks /\ nmask' = nmask + 1 /\ UNCHANGED <<nrem, started>>
  /\ \E K \in Masks : ISetMask(K) /\ MSetMask(K)

StepRemoveMask ==
  /\ started /\ nrem < MaxRemovals /\ nrem' = nrem + 1 /\ UNCHANGED <<nmask, started>>
  /\ \E K \in RemMasks : IRemoveMask(K) /\ MRemoveMask(K)

StepRemoveMove ==
  /\ started /\ nrem < MaxRemovals /\ nrem' = nrem + 1 /\ UNCHANGED <<nmask, started>>
  /\ \E x \in Legal \cup {M(9, 9, "-")} :
        /\ MRemoveMove(x)
        /\ \E gone \in SUBSET Siblings(remaining, x) :
              /\ IRemoveMove(x, gone)
              /\ Owed' = remaining'          \* the contract's choice that matches the implementation

Next == Start \/ StepNext \/ StepSetMask \/ StepRemoveMask \/ StepRemoveMove
Spec == Init /\ [][Next]_mvars

(* a call the contract enables must be answered by the implementation in a   *)
(* way the contract allows: if StepNext is not enabled although started,      *)
(* the implementation returned something the contract forbids                 *)
NextAllowed == started => ENABLED StepNext
RemoveMoveAllowed == (started /\ pristine /\ nrem < MaxRemovals) =>
                        \A x \in Legal : ENABLED (MRemoveMove(x) /\ \E gone \in SUBSET Siblings(remaining, x) :
                                                        IRemoveMove(x, gone) /\ Owed' = remaining')
(* everything owed is eventually drawn: when the full mask is exhausted nothing is left *)
Complete == (started /\ mask = AllSquares /\ Avail(remaining, mask) = {}) => remaining = {}
=============================================================================
