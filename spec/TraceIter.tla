------------------------------ MODULE TraceIter ------------------------------
(***************************************************************************)
(* Trace validation of recorded MoveGen scripts against the iterator       *)
(* contract (MoveGenIter).  The set of moves still owed is NOT logged: TLC *)
(* infers it (it branches only on the promotion-sibling don't-care of      *)
(* remove_move).  The base set is what the same position yields in a plain *)
(* full iteration (logged as "all"), so that this check is about the       *)
(* iterator contract and not about the legality of the moves (C01).        *)
(***************************************************************************)
EXTENDS MoveGenIter, Rules, Json, IOUtils, TLC

Rec == ndJsonDeserialize(IOEnv.TRACE)
VARIABLE l
tivars == <<l, ivars>>

SeqSet(q) == {q[i] : i \in 1..Len(q)}
MvOf(q)   == [f |-> q[1], t |-> q[2], p |-> q[3]]

IsEv(e) == l <= Len(Rec) /\ Rec[l].event = e /\ l' = l + 1

Ch1(s, i) == SubSeq(s, i, i)
EvEp(r)  == IF r.ep_raw = -1 THEN NoSq ELSE r.ep_raw + (IF r.stm = "w" THEN 8 ELSE -8)
EvPos(r) == [b |-> [q \in Squares |-> Ch1(r.sq, q + 1)], stm |-> r.stm, cr |-> SeqSet(r.cr), ep |-> EvEp(r)]
(* what is owed at the start: the legal moves of the position (the spec's, when the position is valid; *)
(* otherwise what a plain full iteration of the same position yields)                                  *)
BaseOf(r) == IF Valid(EvPos(r)) THEN LegalMoves(EvPos(r)) ELSE {MvOf(r.all[i]) : i \in 1..Len(r.all)}
TNew  == IsEv("IterNew") /\ INew(BaseOf(Rec[l]))
TMask == IsEv("SetMask") /\ ISetMask(SeqSet(Rec[l].mask))
TNext == /\ IsEv("Next")
         /\ IF Len(Rec[l].ret) = 0 THEN INextNone ELSE INextSome(MvOf(Rec[l].ret))   \* [] = nothing returned
(* moves passed over by nth / skip / step_by are logged as drawn ("via": "skipped"): they are the moves a second   *)
(* generator in the same state yields through next() - the Iterator contract defines nth(k) as k+1 calls of next()   *)
TDrain == /\ IsEv("Drain")
          /\ IDrain(Rec[l].count, Rec[l].has_last, IF Len(Rec[l].last) = 0 THEN {} ELSE {MvOf(Rec[l].last)})
TLen  == /\ IsEv("Len") /\ ILen
         /\ (Rec[l].ret = Cardinality(Avail(remaining, mask)) /\ Rec[l].lo = Rec[l].ret /\ Rec[l].hi = Rec[l].ret) = TRUE
TRemMask == IsEv("RemoveMask") /\ IRemoveMask(SeqSet(Rec[l].mask))
TRemMove == /\ IsEv("RemoveMove")
            /\ LET x == MvOf(Rec[l].m) IN \E gone \in SUBSET Siblings(remaining, x) : IRemoveMove(x, gone)

TIInit == l = 1 /\ remaining = {} /\ mask = AllSquares /\ pristine = TRUE /\ fresh = TRUE /\ out = [op |-> "none"]
TINext == TNew \/ TMask \/ TNext \/ TLen \/ TRemMask \/ TRemMove \/ TDrain
TISpec == TIInit /\ [][TINext]_tivars

(* The spec branches (sibling don't-care), so acceptance is "some branch    *)
(* consumed every line": track the furthest line reached.                   *)
Furthest == TLCSet(1, IF l > TLCGet(1) THEN l ELSE TLCGet(1))
ASSUME TLCSet(1, 0)
Accepted ==
  LET d == TLCGet(1) - 1
  IN IF d = Len(Rec) THEN PrintT(<<"TRACE-ACCEPTED", d>>)
     ELSE PrintT(<<"TRACE-REJECTED-AT-LINE", d + 1, "of", Len(Rec)>>) /\ FALSE
=============================================================================
