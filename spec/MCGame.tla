------------------------------- MODULE MCGame -------------------------------
(***************************************************************************)
(* Exhaustive exploration of the game protocol over tiny roots, all        *)
(* interleavings of every kind of action, with emission of one record per  *)
(* state (= per history, since the log is part of the state) for replay    *)
(* into the real Game object.                                              *)
(***************************************************************************)
EXTENDS Game, Json

CONSTANTS
  MaxLen,     \* maximum length of the action log
  Mode,       \* "protocol": all actions;  "claims": moves and declarations only
  Emit,       \* print GREC lines
  MaxLegal    \* at most this many legal moves are tried per state (smallest first)

RootFens == <<
  "8/8/8/8/8/5k2/8/5K1R w - - 0 1",          \* K+R v K: plenty of reversible shuffles
  "7k/5Q2/6K1/8/8/8/8/8 b - - 0 1",          \* already stalemate
  "7k/6Q1/6K1/8/8/8/8/8 b - - 0 1",          \* already checkmate (White mates)
  "6k1/8/6K1/8/8/8/8/3Q4 w - - 0 1",         \* mate in one for White
  "8/8/8/8/8/2k5/1p6/3K4 b - - 0 1",         \* promotions (irreversible) and a stalemate trap
  "4k3/8/8/8/8/8/8/R3K3 w Q - 0 1",          \* castling right that can be lost
  "k7/8/K7/8/8/8/8/7R w - - 0 1",            \* mate in one by the rook
  "4k3/8/8/8/8/8/8/R3K1N1 w Q - 0 1",        \* unequal rights that survive a knight shuffle (threefold with rights)
  "r3k1n1/8/8/8/8/8/8/4K3 b q - 0 1",        \* the same for Black
  "4k3/3p4/8/4P3/4K3/8/8/8 b - - 0 1",       \* ...d5+ can only be met by king moves or exd6 e.p.
  "r3k2r/8/8/8/8/8/8/R3K2R w KQkq - 0 1",    \* both sides can lose the same rights by rook shuffles (positions that differ in rights only)
  "b7/8/8/3Pp3/8/6k1/4n3/7K w - e6 0 1"      \* already stalemate although an en-passant square is recorded (capturer pinned)
>>
Roots == {ReadFen(RootFens[i]) : i \in 1..Len(RootFens)}
ASSUME \A p \in Roots : Valid(p)

(* a canonical choice of up to MaxLegal legal moves, plus illegal candidates *)
MoveKey(m) == m.f * 64 * 8 + m.t * 8 + (CASE m.p = "-" -> 0 [] m.p = "n" -> 1 [] m.p = "b" -> 2 [] m.p = "r" -> 3 [] m.p = "q" -> 4)
FirstK(S, k) == {m \in S : Cardinality({x \in S : MoveKey(x) < MoveKey(m)}) < k}
Illegal(p, ms) ==   \* an arbitrary move, a pseudo-legal-looking one, and the null-like a1a1
  {m \in {Mv(0, 0, "-"), Mv(KingSq(p.b, p.stm), KingSq(p.b, Other(p.stm)), "-"),
          Mv(KingSq(p.b, Other(p.stm)), (KingSq(p.b, Other(p.stm)) + 1) % 64, "-")} : m \notin ms}

(* The exhaustive model scales the fifty-move limit down.  realok records     *)
(* whether the history is also a history of real chess (limit 100): it is      *)
(* unless a draw was declared on the strength of the scaled limit alone.       *)
VARIABLE realok
ASSUME MaxLen < 100
RealMust == result = NoResult /\ Cardinality({i \in 1..Len(seen) : seen[i] = cur}) >= 3
RealMay  == result = NoResult /\ Cardinality({i \in 1..Len(seen) : SameLegalEp(seen[i], cur)}) >= 3

Enders(p, ms) == {m \in ms : LegalMoves(Apply(p, m)) = {}}      \* mating and stalemating moves

Init == realok = TRUE /\ \E p \in Roots : GInit(p)

Menu(p, lg, res) ==
  LET ms == LegalMoves(p)
  IN [legal |-> {<<m.f, m.t, m.p>> : m \in ms},
      illegal |-> {<<m.f, m.t, m.p>> : m \in Illegal(p, ms)},
      acceptcond |-> (res = NoResult /\ AcceptCond(start, lg)),
      claimmust |-> RealMust,       \* with the real limit of 100 (the log is shorter than that)
      claimmay |-> RealMay,
      scaledmust |-> ClaimMust(start, lg)]

ActJson(x) ==
  CASE x.a = "move"   -> <<"move", x.m.f, x.m.t, x.m.p>>
    [] x.a = "offer"  -> <<"offer", x.c>>
    [] x.a = "resign" -> <<"resign", x.c>>
    [] x.a = "accept" -> <<"accept">>
    [] x.a = "declare" -> <<"declare">>

GRecord ==
  [start |-> WriteFen(start), log |-> [i \in 1..Len(log) |-> ActJson(log[i])],
   cur |-> WriteFen(cur), stm |-> SideAfter(start, log), result |-> result,
   \* the other admissible reading of the current position: an en-passant square nobody can use may be absent
   curalt |-> WriteFen(IF cur.ep # NoSq /\ EpCaptures(cur) = {} THEN [cur EXCEPT !.ep = NoSq] ELSE cur),
   real |-> realok, menu |-> Menu(cur, log, result)]

EmitG == IF Emit THEN PrintT("GREC " \o ToJson(GRecord)) ELSE TRUE

Lemmas ==
  /\ Assert(LogFaithful, <<"LogFaithful fails", log>>)
  /\ Assert(ResultRight, <<"ResultRight fails", log>>)
  /\ Assert(ClaimAgrees, <<"operational and declarative claim differ", log>>)
  /\ Assert(ClaimMust(start, log) => ClaimMay(start, log), "must implies may")

Next ==
  /\ EmitG
  /\ Lemmas
  /\ Len(log) < MaxLen
  /\ LET ms == LegalMoves(cur)
     IN \* the first MaxLegal legal moves, every move that ends the game at once, and some illegal ones
        \/ (UNCHANGED realok /\ \E m \in FirstK(ms, MaxLegal) \cup Enders(cur, ms) \cup Illegal(cur, ms) : TryMove(m))
        \/ (DeclareDraw /\ realok' = (realok /\ (RealMust \/ ~ClaimOp)))
        \* in "claims" mode the other actions are explored only where a claim is available (e.g. resign, then declare)
        \/ (Mode = "protocol" /\ UNCHANGED realok /\ (\E c \in Colors : OfferDraw(c) \/ Resign(c)))
        \/ (Mode = "protocol" /\ UNCHANGED realok /\ AcceptDraw)
        \/ (Mode = "claims" /\ ClaimOp /\ UNCHANGED realok /\ Resign("w"))       \* resign instead of claiming, then try to declare
        \* an unanswered offer in a position that has occurred exactly twice must not count as a third occurrence
        \/ (Mode = "claims" /\ ~ClaimOp /\ Cardinality({i \in 1..Len(seen) : seen[i] = cur}) = 2
             /\ (Len(log) = 0 \/ log[Len(log)].a # "offer") /\ UNCHANGED realok /\ OfferDraw("w"))

Spec == Init /\ [][Next]_<<gvars, realok>>
(* ret is an output, not state: two histories that differ only in the last   *)
(* return value are the same game.                                           *)
View == <<start, log, cur, result, halfmove, seen, realok>>
=============================================================================
