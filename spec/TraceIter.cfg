SPECIFICATION TISpec
CONSTANT AllSquares = {0,1,2,3,4,5,6,7,8,9,10,11,12,13,14,15,16,17,18,19,20,21,22,23,24,25,26,27,28,29,30,31,32,33,34,35,36,37,38,39,40,41,42,43,44,45,46,47,48,49,50,51,52,53,54,55,56,57,58,59,60,61,62,63}
CONSTRAINT Furthest
POSTCONDITION Accepted
CHECK_DEADLOCK FALSE
