------------------------------ MODULE TraceBoard ------------------------------
(***************************************************************************)
(* Trace validation of recorded executions of the real Board API           *)
(* (direction B).  The harness logs one NDJSON event per public call with  *)
(* the full projected state; TLC accepts the trace iff every line can be   *)
(* consumed by an action of this spec.  PROP selects which listed          *)
(* property's conjuncts are enforced: in every mode the logged state is    *)
(* followed, so that only the property under check can reject an event.    *)
(***************************************************************************)
EXTENDS Text, Json, IOUtils, FiniteSetsExt

Rec  == ndJsonDeserialize(IOEnv.TRACE)
PROP == IOEnv.PROP

VARIABLES l, pos, ld, dom, hmap
tvars == <<l, pos, ld, dom, hmap>>

SeqSet(q) == {q[i] : i \in 1..Len(q)}
MvOf(q)   == Mv(q[1], q[2], q[3])

(* The library keeps the pushed pawn's square; the specification the square *)
(* it passed over.                                                          *)
EvEp(r)  == IF r.ep_raw = -1 THEN NoSq ELSE r.ep_raw + (IF r.stm = "w" THEN 8 ELSE -8)
EvPos(r) == [b |-> [s \in Squares |-> Ch(r.sq, s + 1)], stm |-> r.stm, cr |-> SeqSet(r.cr), ep |-> EvEp(r)]

IsDigits(s) == Len(s) > 0 /\ \A i \in 1..Len(s) : Ch(s, i) \in {"0","1","2","3","4","5","6","7","8","9"}
Fen4(f) == f[1] \o " " \o f[2] \o " " \o f[3] \o " " \o f[4]

FenOK(text, p, l0) ==
  LET f == Split(text, " ")
  IN /\ Len(f) = 6
     /\ IsDigits(f[5]) /\ IsDigits(f[6]) /\ f[6] # "0"
     /\ Fen4(f) \in FenPrefixAllowed(p, l0)

(* ------------------- per-property observation predicates -------------- *)
ObsC01(r, p) ==
  LET ms == LegalMoves(p)
  IN /\ {MvOf(r.legal[i]) : i \in 1..Len(r.legal)} = ms
     /\ Len(r.legal) = Cardinality(ms)           \* no duplicates
     /\ r.len = Cardinality(ms)

ObsC03(r, p) ==
  /\ r.bb = r.sq
  /\ SeqSet(r.occ) = Occ(p.b)
  /\ SeqSet(r.wocc) = MenOf(p.b, "w") /\ SeqSet(r.bocc) = MenOf(p.b, "b")
  /\ r.wk = KingSq(p.b, "w") /\ r.bk = KingSq(p.b, "b")
  /\ SeqSet(r.chk) = Checkers(p)
  /\ {s \in SeqSet(r.pin) : ColorOf(p.b[s]) = p.stm} = Pinned(p)
  /\ r.eq_fresh = TRUE

(* alternative accessors of the same state: my_/their_castle_rights (index 1*[king side] + 2*[queen side]) and *)
(* the colour-blind pieces(kind) sets (order pawn, knight, bishop, rook, queen, king)                          *)
RightsIdx(p, c) == (IF Pc(c, "k") \in p.cr THEN 1 ELSE 0) + (IF Pc(c, "q") \in p.cr THEN 2 ELSE 0)
KindLetters == <<"p", "n", "b", "r", "q", "k">>
ObsAcc(r, p) ==
  /\ r.mycr = RightsIdx(p, p.stm) /\ r.theircr = RightsIdx(p, Other(p.stm))
  /\ \A i \in 1..6 : SeqSet(r.kinds[i]) = {s \in Squares : p.b[s] \in {Pc("w", KindLetters[i]), Pc("b", KindLetters[i])}}

ObsC04(r, p) == r.status = Status(p)

ObsC05(r, p, old, isMove) ==
  /\ Valid(p)
  /\ r.sane = TRUE
  /\ isMove => /\ p.cr \subseteq old.cr
               /\ \A c \in Colors : /\ NMen(p.b, c) <= NMen(old.b, c)
                                    /\ Count(p.b, Pc(c, "p")) <= Count(old.b, Pc(c, "p"))

ObsC06(r, p, l0) ==
  /\ FenOK(r.fen, p, l0)
  /\ FenOK(r.bfen, p, l0)
  /\ r.eq_fresh = TRUE          \* parsing the library's own rendering gives back an equal board

ObsC08(r, p) ==
  /\ (p \in DOMAIN hmap) => hmap[p] = r.hash
  /\ r.hash_fresh = r.hash
  /\ (r.eq_fresh = TRUE) => r.stdhash_fresh = r.stdhash

ObsC09(r, p) == \A q \in DOMAIN hmap : (q # p) => hmap[q] # r.hash

Obs(r, p, old, l0, isMove) ==
  CASE PROP = "C01" -> ObsC01(r, p)
    [] PROP = "C02" -> ObsAcc(r, p)
    [] PROP = "C03" -> ObsC03(r, p) /\ ObsAcc(r, p)
    [] PROP = "C04" -> ObsC04(r, p)
    [] PROP = "C05" -> ObsC05(r, p, old, isMove)
    [] PROP = "C06" -> ObsC06(r, p, l0)
    [] PROP = "C08" -> ObsC08(r, p)
    [] PROP = "C09" -> ObsC09(r, p)
    [] OTHER -> TRUE

NeedsHmap == PROP \in {"C08", "C09"}
HmapAfter(r, p) == IF NeedsHmap /\ p \notin DOMAIN hmap THEN hmap @@ (p :> r.hash) ELSE hmap

(* In-domain guard: once a recorded state is not a valid position (which   *)
(* can only happen after the library misbehaved on an earlier event, and   *)
(* is reported by the property that owns that event) the remaining events  *)
(* are followed without judging them.                                      *)
Judge(r, p, old, l0, isMove) == IF dom /\ Valid(p) THEN Obs(r, p, old, l0, isMove) ELSE TRUE

(* ------------------------------- actions ------------------------------ *)
IsEvent(e) == l <= Len(Rec) /\ Rec[l].event = e /\ l' = l + 1

TReset ==
  /\ IsEvent("Reset")
  /\ LET r == Rec[l]
         p == EvPos(r)
         q == ReadFen(r.text)       \* the standard text the harness handed to the library
         \* standard text understood: same position, en-passant square kept whenever it can be
         \* used and otherwise kept or dropped (the don't-care of the en-passant field)
         okread == ([q EXCEPT !.ep = p.ep] = p) /\ (p.ep \in FenEpAllowed(q, q.ep))
         \* the position the text denotes, read by the specification alone (an en-passant square nobody can use
         \* is dropped: legal moves, status, checkers and pins do not depend on it)
         qd == [q EXCEPT !.ep = IF q.ep # NoSq /\ EpCaptures(q) # {} THEN q.ep ELSE NoSq]
         \* what is judged: the library's reading when it is an admissible one, else the specification's -
         \* a misread text must not take the oracle along with it
         j == IF okread THEN p ELSE qd
     IN /\ (PROP \in {"C06", "C07"}) => (okread = TRUE)
        /\ pos' = j /\ ld' = q.ep /\ dom' = Valid(j)
        /\ (IF Valid(j) THEN Obs(r, j, j, q.ep, FALSE) ELSE TRUE) = TRUE
        /\ hmap' = HmapAfter(r, j)

TMove ==
  /\ IsEvent("Move")
  /\ LET r  == Rec[l]
         m  == MvOf(r.m)
         p  == EvPos(r)
         l0 == IF IsDouble(pos, m) THEN PassedOver(pos, m) ELSE NoSq
     IN /\ "panic" \notin DOMAIN r
        /\ (dom /\ PROP = "C01") => (m \in LegalMoves(pos)) = TRUE
        /\ (dom /\ PROP = "C02") => (/\ m \in LegalMoves(pos)
                                     /\ p \in Succ(pos, m)
                                     /\ r.eq_other_entry /\ r.src_unchanged) = TRUE
        /\ pos' = p /\ ld' = l0 /\ dom' = (dom /\ Valid(p))
        /\ Judge(r, p, pos, l0, TRUE) = TRUE
        /\ hmap' = HmapAfter(r, p)

TNull ==
  /\ IsEvent("Null")
  /\ LET r == Rec[l]
         p == EvPos(r)
     IN /\ (dom /\ PROP = "C18") => (r.ok = NullAllowed(pos)) = TRUE
        /\ IF r.ok
           THEN /\ (dom /\ PROP = "C18") => (/\ p = NullMove(pos)
                                             /\ r.src_unchanged
                                             /\ r.eq_fresh = TRUE
                                             /\ r.hash_fresh = r.hash
                                             /\ SeqSet(r.chk) = {}) = TRUE
                /\ pos' = p /\ ld' = NoSq /\ dom' = (dom /\ Valid(p))
                /\ Judge(r, p, pos, NoSq, FALSE) = TRUE
                /\ hmap' = HmapAfter(r, p)
           ELSE /\ (dom /\ PROP = "C18") => (p = pos) = TRUE
                /\ UNCHANGED <<pos, ld, dom, hmap>>

(* The deprecated in-place editing API (set_piece, clear_square, add/remove_castle_rights):    *)
(* positions obtained this way are positions "however obtained" for the derived-state       *)
(* properties.  The edit itself is specified here: the square gets the man (or is emptied),  *)
(* nothing else changes, and the edit is refused iff it would leave the side NOT to move in  *)
(* check.  Judged (PROP = C03) only when the result has exactly one king per side, not        *)
(* adjacent to each other; otherwise the logged state is followed.                           *)
KingsApart(b) == OneKingEach(b) /\ KingSq(b, "w") \notin KingT[KingSq(b, "b")]

TEdit ==
  /\ IsEvent("Edit")
  /\ LET r  == Rec[l]
         b2 == [pos.b EXCEPT ![r.esq] = r.man]          \* r.man = "." for clear_square
         \* (a king is relocated by setting the new one first and clearing the old one afterwards: the board in between
         \* holds two kings of one colour and is followed without being judged)
         judged == PROP = "C03" /\ KingsApart(b2) /\ (KingsApart(pos.b) \/ r.man = ".")
     IN /\ judged => (r.ok = ~InCheck(b2, Other(pos.stm))) = TRUE
        /\ IF r.ok
           THEN LET p == EvPos(r)
                   \* an edited board is a position in its own right: "the last move was a double push" is history that the
                   \* edit made void (a pawn recoloured beside a pawn that has just advanced two squares creates no
                   \* en-passant right) - from here on the en-passant square is whatever the edited position carries
                IN /\ judged => (p = [pos EXCEPT !.b = b2]) = TRUE
                   /\ pos' = p /\ ld' = p.ep /\ dom' = Valid(p)
                   /\ (IF Valid(p) THEN Obs(r, p, pos, p.ep, FALSE) ELSE TRUE) = TRUE
                   /\ hmap' = HmapAfter(r, p)
           ELSE UNCHANGED <<pos, ld, dom, hmap>>

TRights ==
  /\ IsEvent("Rights")
  /\ LET r == Rec[l]
         p == EvPos(r)
         want == IF r.add THEN pos.cr \cup SeqSet(r.which) ELSE pos.cr \ SeqSet(r.which)
     IN /\ (PROP = "C03") => (p = [pos EXCEPT !.cr = want]) = TRUE
        /\ pos' = p /\ ld' = ld /\ dom' = Valid(p)
        /\ (IF Valid(p) THEN Obs(r, p, pos, ld, FALSE) ELSE TRUE) = TRUE
        /\ hmap' = HmapAfter(r, p)

TInit == l = 1 /\ pos = StartPos /\ ld = NoSq /\ dom = TRUE /\ hmap = << >>
TNext == TReset \/ TMove \/ TNull \/ TEdit \/ TRights
TSpec == TInit /\ [][TNext]_tvars

(* one TLC state per consumed line plus the initial state *)
Accepted ==
  LET d == TLCGet("stats").diameter - 1
  IN IF d = Len(Rec) THEN PrintT(<<"TRACE-ACCEPTED", d>>)
     ELSE PrintT(<<"TRACE-REJECTED-AT-LINE", d + 1, "of", Len(Rec)>>) /\ FALSE
=============================================================================
