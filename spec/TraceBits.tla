------------------------------ MODULE TraceBits ------------------------------
(***************************************************************************)
(* A bitboard behaves as the set of squares whose bits are set (C20).      *)
(* The harness logs applications of every public BitBoard operation (in    *)
(* all owned / borrowed / assigning forms) with operands and results as    *)
(* lists of squares; each record is checked with plain set algebra.  The   *)
(* iterator is the tiny state machine "yield the least remaining square".  *)
(***************************************************************************)
EXTENDS Geometry, Json, IOUtils, TLC

Rec == ndJsonDeserialize(IOEnv.TRACE)
VARIABLES l, rest
bv == <<l, rest>>

SeqSet(q) == {q[i] : i \in 1..Len(q)}
Ascending(q) == \A i \in 1..(Len(q) - 1) : q[i] < q[i + 1]
IsEv(e) == l <= Len(Rec) /\ Rec[l].op = e /\ l' = l + 1

(* r.forms: the results of every syntactic form of the same operation (owned, borrowed, assigning ...) *)
AllForms(r, expected) == \A i \in 1..Len(r.forms) : SeqSet(r.forms[i]) = expected /\ Ascending(r.forms[i])

TBin ==
  /\ l <= Len(Rec) /\ Rec[l].op \in {"and", "or", "xor"} /\ l' = l + 1
  /\ LET r == Rec[l]
         a == SeqSet(r.a)
         b == SeqSet(r.b)
     IN AllForms(r, CASE r.op = "and" -> a \cap b [] r.op = "or" -> a \cup b [] r.op = "xor" -> SetSymDiff(a, b)) = TRUE
  /\ UNCHANGED rest
TNot == IsEv("not") /\ AllForms(Rec[l], Compl(SeqSet(Rec[l].a))) = TRUE /\ UNCHANGED rest
TCount == IsEv("popcnt") /\ (Rec[l].ret = Cardinality(SeqSet(Rec[l].a))) = TRUE /\ UNCHANGED rest
TFirst == IsEv("to_square") /\ (SeqSet(Rec[l].a) # {} => Rec[l].ret = MinOf(SeqSet(Rec[l].a))) = TRUE /\ UNCHANGED rest
TFromSq == IsEv("from_square") /\ (SeqSet(Rec[l].ret) = {Rec[l].sq} /\ Rec[l].back = Rec[l].sq /\ Rec[l].set_rf = Rec[l].sq) = TRUE /\ UNCHANGED rest
TRev == IsEv("reverse_colors") /\ (SeqSet(Rec[l].ret) = FlipRanks(SeqSet(Rec[l].a)) /\ Ascending(Rec[l].ret)) = TRUE /\ UNCHANGED rest
TNew == IsEv("new") /\ (SeqSet(Rec[l].ret) = SeqSet(Rec[l].bits) /\ Ascending(Rec[l].ret)) = TRUE /\ UNCHANGED rest

(* iteration: IterStart fixes the set, each IterNext must yield its least element, IterEnd needs it empty *)
TIterStart == IsEv("iter_start") /\ rest' = SeqSet(Rec[l].a)
TIterNext  == IsEv("iter_next") /\ (rest # {} /\ Rec[l].ret = MinOf(rest)) = TRUE /\ rest' = rest \ {Rec[l].ret}
TIterEnd   == IsEv("iter_end") /\ (rest = {}) = TRUE /\ UNCHANGED rest

(* The Iterator trait's provided methods must agree with plain iteration in ascending order. *)
RECURSIVE SortedSeq(_)
SortedSeq(S) == IF S = {} THEN <<>> ELSE LET m == MinOf(S) IN <<m>> \o SortedSeq(S \ {m})
Drop(q, n) == IF n >= Len(q) THEN <<>> ELSE SubSeq(q, n + 1, Len(q))
EveryKth(q, k) == [i \in 1..((Len(q) + k - 1) \div k) |-> q[(i - 1) * k + 1]]

TAdaptor ==
  /\ IsEv("adaptor") /\ UNCHANGED rest
  /\ LET r == Rec[l]
         S == SeqSet(r.a)
         q == SortedSeq(S)
     IN (CASE r.what = "nth"     -> /\ r.ret = (IF r.n < Len(q) THEN <<q[r.n + 1]>> ELSE <<>>)
                                    /\ r.after = Drop(q, r.n + 1)
           [] r.what = "last"    -> r.ret = (IF S = {} THEN <<>> ELSE <<MaxOf(S)>>)
           [] r.what = "max"     -> r.ret = (IF S = {} THEN <<>> ELSE <<MaxOf(S)>>)
           [] r.what = "min"     -> r.ret = (IF S = {} THEN <<>> ELSE <<MinOf(S)>>)
           [] r.what = "count"   -> r.ret = <<Cardinality(S)>>
           [] r.what = "skip"    -> r.ret = Drop(q, r.n)
           [] r.what = "step_by" -> r.ret = EveryKth(q, r.n)
           [] r.what = "collect" -> r.ret = q) = TRUE

BInit == l = 1 /\ rest = {}
BNext == TAdaptor \/ TBin \/ TNot \/ TCount \/ TFirst \/ TFromSq \/ TRev \/ TNew \/ TIterStart \/ TIterNext \/ TIterEnd
BSpec == BInit /\ [][BNext]_bv
Accepted ==
  LET d == TLCGet("stats").diameter - 1
  IN IF d = Len(Rec) THEN PrintT(<<"TRACE-ACCEPTED", d>>)
     ELSE PrintT(<<"TRACE-REJECTED-AT-LINE", d + 1, "of", Len(Rec)>>) /\ FALSE
=============================================================================
