SPECIFICATION Spec
CONSTANTS
  Family = "KRK"
  MaxDepth = 999
  Lemmas = 1
  Emit = TRUE
  Sub = 0
CHECK_DEADLOCK FALSE
