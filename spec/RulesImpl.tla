------------------------------ MODULE RulesImpl ------------------------------
(***************************************************************************)
(* An implementation-shaped formulation of legal move generation, as the   *)
(* library organises it (src/movegen/piece_type.rs): no "make the move and *)
(* look", but                                                              *)
(*   - two or more checkers: king moves only;                              *)
(*   - one checker: non-king moves must land on the checker or between it  *)
(*     and the king (the check mask); pinned men do not move at all;       *)
(*   - no checker: pinned men move only along the line through the king;   *)
(*   - king moves: the destination must not be attacked once the king has  *)
(*     left its square; castling: right, empty squares, transit and target *)
(*     not attacked, not in check;                                         *)
(*   - en passant: generated outside the check mask and the pin logic,     *)
(*     accepted iff no enemy slider attacks the king once both pawns have  *)
(*     left their squares and the capturer stands on the target.           *)
(* TLC checks ImplLegal(pos) = LegalMoves(pos) on every state of the lemma *)
(* models (MCBoard, Lemmas = 2): a design-level proof obligation for the   *)
(* algorithm the code implements, separate from the conformance checks of  *)
(* the code itself.  It only holds on VALID positions - e.g. the           *)
(* en-passant shortcut relies on "a position with en-passant state was     *)
(* reached by that double push", which is what rules out a knight check    *)
(* that the shortcut would ignore.                                         *)
(***************************************************************************)
EXTENDS Rules

ImplPinned(pos) == PinnedRay(pos.b, pos.stm)

ImplKingSafe(pos, t) ==     \* destination not attacked with the king lifted off the board
  LET k  == KingSq(pos.b, pos.stm)
      b2 == [pos.b EXCEPT ![k] = Empty]
  IN ~Attacked(b2, t, Other(pos.stm))

ImplKingMoves(pos) ==
  LET k == KingSq(pos.b, pos.stm)
  IN {Mv(k, t, NoPromo) : t \in {t \in KingT[k] : ColorOf(pos.b[t]) # pos.stm /\ ImplKingSafe(pos, t)}}

ImplCastles(pos) ==
  LET b == pos.b
      c == pos.stm
      k == KingSq(b, c)
      r == BackRank(c)
  IN (IF RightK(c) \in pos.cr /\ b[Sq(5, r)] = Empty /\ b[Sq(6, r)] = Empty
         /\ ImplKingSafe(pos, Sq(5, r)) /\ ImplKingSafe(pos, Sq(6, r))
      THEN {Mv(k, Sq(6, r), NoPromo)} ELSE {})
     \cup
     (IF RightQ(c) \in pos.cr /\ b[Sq(3, r)] = Empty /\ b[Sq(2, r)] = Empty /\ b[Sq(1, r)] = Empty
         /\ ImplKingSafe(pos, Sq(3, r)) /\ ImplKingSafe(pos, Sq(2, r))
      THEN {Mv(k, Sq(2, r), NoPromo)} ELSE {})

(* pseudo-legal destinations of a non-king man, en passant excluded *)
ImplTargets(pos, s) ==
  LET b == pos.b
      c == pos.stm
  IN IF Kind(b[s]) = "p"
     THEN PawnPush(c, s, Occ(b)) \cup {t \in PawnAtt(c, s) : ColorOf(b[t]) = Other(c)}
     ELSE {t \in PieceTargets(b, s) : ColorOf(b[t]) # c}

WithPromosIf(pos, s, t) ==
  IF Kind(pos.b[s]) = "p" THEN WithPromos(pos.stm, s, t) ELSE {Mv(s, t, NoPromo)}

ImplEp(pos) ==
  IF pos.ep = NoSq THEN {}
  ELSE LET b == pos.b
           c == pos.stm
           k == KingSq(b, c)
           victim == EpPawnSq(pos)
           srcs == {s \in Squares : b[s] = Pc(c, "p") /\ RankOf(s) = RankOf(victim) /\ Abs(FileOf(s) - FileOf(victim)) = 1}
           ok(s) == LET b2 == [b EXCEPT ![s] = Empty, ![victim] = Empty, ![pos.ep] = Pc(c, "p")]
                    IN SliderAttackers(b2, k, Other(c)) = {}
       IN {Mv(s, pos.ep, NoPromo) : s \in {s \in srcs : ok(s)}}

ImplLegal(pos) ==
  LET b == pos.b
      c == pos.stm
      k == KingSq(b, c)
      chk == Checkers(pos)
      pinned == ImplPinned(pos)
      men == MenOf(b, c) \ {k}
  IN IF Cardinality(chk) >= 2 THEN ImplKingMoves(pos)
     ELSE LET incheck == chk # {}
              cmask == IF incheck THEN (LET a == CHOOSE x \in chk : TRUE IN BetweenT[a][k] \cup {a}) ELSE Squares
              free  == UNION {UNION {WithPromosIf(pos, s, t) : t \in ImplTargets(pos, s) \cap cmask} : s \in men \ pinned}
              held  == IF incheck THEN {}
                       ELSE UNION {UNION {WithPromosIf(pos, s, t) : t \in ImplTargets(pos, s) \cap LineT[k][s]} : s \in men \cap pinned}
          IN free \cup held \cup ImplEp(pos) \cup ImplKingMoves(pos)
             \cup (IF incheck THEN {} ELSE ImplCastles(pos))
=============================================================================
