//! Direction A for notation: TLC-enumerated coordinate text (all 20480 moves
//! and 64 squares: `"UREC ..."` lines of MCText) and SAN tables (the `san` /
//! `rej` fields of MCBoard records) compared with the library.
//!
//! stdin: TLC output;  --props C12,C13  --out report.json

use chess::*;
use chess_verif_harness::*;
use serde_json::json;
use std::collections::HashSet;
use std::io::BufRead;
use std::convert::TryFrom;
use std::str::FromStr;

fn main() {
    let args: Vec<String> = std::env::args().collect();
    let mut out = String::new();
    let mut props: HashSet<String> = HashSet::new();
    let mut i = 1;
    while i < args.len() {
        match args[i].as_str() {
            "--out" => {
                out = args[i + 1].clone();
                i += 1;
            }
            "--props" => {
                props = args[i + 1].split(',').map(|s| s.to_string()).collect();
                i += 1;
            }
            _ => {}
        }
        i += 1;
    }
    std::panic::set_hook(Box::new(|_| {}));
    let mut rep = Report::new();
    let stdin = std::io::stdin();
    for line in stdin.lock().lines() {
        let line = match line {
            Ok(l) => l,
            Err(_) => continue,
        };
        if line.starts_with("\"UREC ") && props.contains("C13") {
            let rec = parse_tlc_line(&line, "UREC").expect("UREC");
            let f = rec["f"].as_i64().unwrap() as u8;
            let name = rec["name"].as_str().unwrap();
            rep.count("squares", 1);
            let sq = Square::new(f);
            if format!("{}", sq) != name {
                rep.violation("C13", "square_renders_wrong", json!({"square": f, "expected": name, "observed": format!("{}", sq)}));
            }
            match std::panic::catch_unwind(|| Square::from_str(name)) {
                Ok(Ok(s)) if s == sq => {}
                Ok(r) => rep.violation("C13", "square_text_does_not_parse_back", json!({"text": name, "observed": format!("{:?}", r.map(|s| s.to_index()))})),
                Err(_) => rep.violation("C13", "panic_parsing_square", json!({"text": name})),
            }
            for e in rec["mv"].as_array().unwrap() {
                let t = e[0].as_i64().unwrap() as u8;
                let p = e[1].as_str().unwrap();
                let text = e[2].as_str().unwrap();
                let m = mk_move(f, t, p);
                rep.count("moves", 1);
                let shown = format!("{}", m);
                if shown != text {
                    rep.violation("C13", "move_renders_wrong", json!({"move": [f, t, p], "expected": text, "observed": shown}));
                }
                match std::panic::catch_unwind(|| ChessMove::from_str(text)) {
                    Ok(Ok(x)) if x == m => {}
                    Ok(r) => rep.violation("C13", "move_text_does_not_parse_back", json!({"text": text, "observed": format!("{:?}", r.map(mv_triple))})),
                    Err(_) => rep.violation("C13", "panic_parsing_move", json!({"text": text})),
                }
            }
            rep.sample("uci", json!({"square": name, "first": rec["mv"][0]}), 2);
        } else if line.starts_with("\"REC ") && props.contains("C12") {
            let rec = match parse_tlc_line(&line, "REC") {
                Some(r) => r,
                None => continue,
            };
            if rec.get("san").is_none() {
                continue;
            }
            let fen = rec["fen"].as_str().unwrap();
            let board = match Board::from_str(fen) {
                Ok(b) => b,
                Err(_) => continue,
            };
            rep.count("positions_with_san_tables", 1);
            // the same position obtained another way: the turn passed twice (derived state rebuilt by null_move; only when
            // no en-passant square is lost on the way) and built through the builder
            let mut boards: Vec<(&str, Board)> = vec![("from_str", board)];
            if board.en_passant().is_none() {
                if let Some(n2) = board.null_move().and_then(|x| x.null_move()) {
                    rep.count("positions_also_tested_after_passing_twice", 1);
                    boards.push(("null_move twice", n2));
                }
            }
            if let Ok(bb) = Board::try_from(&pos_to_builder(&pos_from_spec_fen(fen))) {
                boards.push(("builder", bb));
            }
            for (how, board) in boards.iter() {
            let board = *board;
            for e in rec["san"].as_array().unwrap() {
                let m = mk_move(e[0].as_i64().unwrap() as u8, e[1].as_i64().unwrap() as u8, e[2].as_str().unwrap());
                for s in e[3].as_array().unwrap() {
                    let text = s.as_str().unwrap();
                    rep.count("spellings", 1);
                    if text.ends_with(" e.p.") {
                        rep.count("spellings_with_ep_marker", 1);
                    }
                    if text.starts_with("O-O") && text.len() > 3 && !text.starts_with("O-O-O") || text.starts_with("O-O-O") && text.len() > 5 {
                        rep.count("castling_spellings_with_suffix", 1);
                    }
                    match std::panic::catch_unwind(|| ChessMove::from_san(&board, text)) {
                        Ok(Ok(x)) if x == m => {}
                        Ok(Ok(x)) => rep.violation("C12", "san_parsed_to_another_move", json!({"fen": fen, "obtained": how, "text": text, "expected": mv_json(m), "observed": mv_json(x)})),
                        Ok(Err(_)) => {
                            let class = if text.starts_with("O-O") {
                                "castling_with_check_suffix"
                            } else if !text.ends_with(" e.p.") && e[3].as_array().unwrap().iter().any(|z| z.as_str().unwrap().ends_with(" e.p.")) {
                                "en_passant_without_marker"
                            } else {
                                "other"
                            };
                            rep.violation("C12", &format!("admissible_san_rejected_{}", class), json!({"fen": fen, "obtained": how, "text": text, "expected": mv_json(m)}))
                        }
                        Err(_) => rep.violation("C12", "panic_in_from_san", json!({"fen": fen, "text": text})),
                    }
                }
            }
            for s in rec["rej"].as_array().unwrap() {
                let text = s.as_str().unwrap();
                rep.count("texts_to_reject", 1);
                match std::panic::catch_unwind(|| ChessMove::from_san(&board, text)) {
                    Ok(Err(_)) => {}
                    Ok(Ok(x)) => rep.violation("C12", "san_accepted_but_denotes_no_single_legal_move", json!({"fen": fen, "obtained": how, "text": text, "observed": mv_json(x)})),
                    Err(_) => rep.violation("C12", "panic_in_from_san", json!({"fen": fen, "text": text})),
                }
            }
            let _ = how;
            }
            rep.sample("san", json!({"fen": fen, "first": rec["san"][0]}), 2);
        }
    }
    let text = serde_json::to_string_pretty(&rep.to_json()).unwrap();
    if out.is_empty() {
        println!("{}", text);
    } else {
        std::fs::write(&out, text).unwrap();
    }
}
