//! Direction A for the small value types (module Vocab): TLC printed the
//! complete tables (`"VREC ..."`) and ordering samples (`"VORD ..."`) of
//! MCVocab; every entry is compared with the library.  A mismatch is a
//! divergence from the specification beyond the listed properties: it is
//! reported under the pseudo property "SPEC" and the driver prints it as a
//! NOTE, not as a VIOLATION.

use chess::*;
use chess_verif_harness::*;
use serde_json::{json, Value};
use std::cmp::Ordering;
use std::collections::hash_map::DefaultHasher;
use std::hash::{Hash, Hasher};
use std::io::BufRead;
use std::str::FromStr;

fn col(i: usize) -> Color {
    if i == 0 {
        Color::White
    } else {
        Color::Black
    }
}
fn rights(i: i64) -> CastleRights {
    ALL_CASTLE_RIGHTS[(i & 3) as usize]
}
fn set_of(v: &Value) -> Vec<u8> {
    let mut x: Vec<u8> = v.as_array().unwrap().iter().map(|s| s.as_i64().unwrap() as u8).collect();
    x.sort();
    x
}
fn piece_of(l: &str) -> Option<Piece> {
    match l {
        "p" => Some(Piece::Pawn),
        "n" => Some(Piece::Knight),
        "b" => Some(Piece::Bishop),
        "r" => Some(Piece::Rook),
        "q" => Some(Piece::Queen),
        "k" => Some(Piece::King),
        _ => None,
    }
}
fn mv_of(v: &Value) -> ChessMove {
    let a = v.as_array().unwrap();
    ChessMove::new(
        Square::new(a[0].as_i64().unwrap() as u8),
        Square::new(a[1].as_i64().unwrap() as u8),
        piece_of(a[2].as_str().unwrap()),
    )
}
fn ord(o: Ordering) -> i64 {
    match o {
        Ordering::Less => -1,
        Ordering::Equal => 0,
        Ordering::Greater => 1,
    }
}
fn h<T: Hash>(x: &T) -> u64 {
    let mut s = DefaultHasher::new();
    x.hash(&mut s);
    s.finish()
}

fn tables(v: &Value, rep: &mut Report) {
    macro_rules! chk {
        ($kind:expr, $what:expr, $exp:expr, $got:expr) => {
            rep.count("vocab_entries", 1);
            let (e_, g_) = ($exp, $got);
            if e_ != g_ {
                rep.violation("SPEC", $kind, json!({"what": $what, "expected": format!("{:?}", e_), "library": format!("{:?}", g_)}));
            }
        };
    }
    // Color
    for (i, c) in v["color"].as_array().unwrap().iter().enumerate() {
        let k = col(i);
        let w = format!("Color {:?}", k);
        chk!("color_helpers", w.clone() + " ALL_COLORS order", k, ALL_COLORS[i]);
        chk!("color_helpers", w.clone() + " to_index", c["idx"].as_i64().unwrap(), k.to_index() as i64);
        chk!("color_helpers", w.clone() + " not", c["not"].as_str().unwrap() == "w", (!k) == Color::White);
        chk!("color_helpers", w.clone() + " to_my_backrank", c["myback"].as_i64().unwrap(), k.to_my_backrank().to_index() as i64);
        chk!("color_helpers", w.clone() + " to_their_backrank", c["theirback"].as_i64().unwrap(), k.to_their_backrank().to_index() as i64);
        chk!("color_helpers", w.clone() + " to_second_rank", c["second"].as_i64().unwrap(), k.to_second_rank().to_index() as i64);
        chk!("color_helpers", w.clone() + " to_fourth_rank", c["fourth"].as_i64().unwrap(), k.to_fourth_rank().to_index() as i64);
        chk!("color_helpers", w.clone() + " to_seventh_rank", c["seventh"].as_i64().unwrap(), k.to_seventh_rank().to_index() as i64);
    }
    chk!("color_helpers", "NUM_COLORS", 2usize, NUM_COLORS);
    // Piece
    for (i, p) in v["piece"].as_array().unwrap().iter().enumerate() {
        let k = ALL_PIECES[i];
        let w = format!("Piece {:?}", k);
        chk!("piece_helpers", w.clone() + " to_index", p["idx"].as_i64().unwrap(), k.to_index() as i64);
        chk!("piece_helpers", w.clone() + " Display", p["lower"].as_str().unwrap().to_string(), format!("{}", k));
        chk!("piece_helpers", w.clone() + " to_string(Black)", p["lower"].as_str().unwrap().to_string(), k.to_string(Color::Black));
        chk!("piece_helpers", w.clone() + " to_string(White)", p["upper"].as_str().unwrap().to_string(), k.to_string(Color::White));
        chk!("piece_helpers", w.clone() + " letter maps back", Some(k), piece_of(p["lower"].as_str().unwrap()));
        for j in 0..6 {
            chk!("piece_helpers", format!("{} cmp {:?}", w, ALL_PIECES[j]), ord(i.cmp(&j)), ord(k.cmp(&ALL_PIECES[j])));
        }
    }
    chk!("piece_helpers", "NUM_PIECES", 6usize, NUM_PIECES);
    chk!("piece_helpers", "NUM_PROMOTION_PIECES", 4usize, NUM_PROMOTION_PIECES);
    {
        let mut exp: Vec<String> = v["promo"].as_array().unwrap().iter().map(|x| x.as_str().unwrap().to_string()).collect();
        exp.sort();
        let mut got: Vec<String> = PROMOTION_PIECES.iter().map(|p| format!("{}", p)).collect();
        got.sort();
        chk!("piece_helpers", "PROMOTION_PIECES as a set", exp, got);
    }
    // CastleRights
    chk!("castle_rights_helpers", "NUM_CASTLE_RIGHTS", 4usize, NUM_CASTLE_RIGHTS);
    for (i, c) in v["cr"].as_array().unwrap().iter().enumerate() {
        let k = ALL_CASTLE_RIGHTS[i];
        let w = format!("CastleRights {:?}", k);
        chk!("castle_rights_helpers", w.clone() + " to_index", c["idx"].as_i64().unwrap(), k.to_index() as i64);
        chk!("castle_rights_helpers", w.clone() + " has_kingside", c["hask"].as_bool().unwrap(), k.has_kingside());
        chk!("castle_rights_helpers", w.clone() + " has_queenside", c["hasq"].as_bool().unwrap(), k.has_queenside());
        for j in 0..4 {
            chk!("castle_rights_helpers", format!("{} add {:?}", w, ALL_CASTLE_RIGHTS[j]), rights(c["add"][j].as_i64().unwrap()), k.add(ALL_CASTLE_RIGHTS[j]));
            chk!("castle_rights_helpers", format!("{} remove {:?}", w, ALL_CASTLE_RIGHTS[j]), rights(c["remove"][j].as_i64().unwrap()), k.remove(ALL_CASTLE_RIGHTS[j]));
        }
        for j in 0..16usize {
            chk!("castle_rights_helpers", format!("CastleRights::from_index({})", j), rights(c["fromidx"][j].as_i64().unwrap()), CastleRights::from_index(j));
        }
        chk!("castle_rights_helpers", w.clone() + " to_string(White)", c["textw"].as_str().unwrap().to_string(), k.to_string(Color::White));
        chk!("castle_rights_helpers", w.clone() + " to_string(Black)", c["textb"].as_str().unwrap().to_string(), k.to_string(Color::Black));
        chk!("castle_rights_helpers", w.clone() + " unmoved_rooks(White)", set_of(&c["rooksw"]), bb_squares(k.unmoved_rooks(Color::White)));
        chk!("castle_rights_helpers", w.clone() + " unmoved_rooks(Black)", set_of(&c["rooksb"]), bb_squares(k.unmoved_rooks(Color::Black)));
        for ci in 0..2 {
            chk!("castle_rights_helpers", format!("{} kingside_squares({:?})", w, col(ci)), set_of(&v["kingside"][ci]), bb_squares(k.kingside_squares(col(ci))));
            chk!("castle_rights_helpers", format!("{} queenside_squares({:?})", w, col(ci)), set_of(&v["queenside"][ci]), bb_squares(k.queenside_squares(col(ci))));
        }
    }
    for ci in 0..2 {
        for q in 0..64usize {
            let s = Square::new(q as u8);
            chk!("castle_rights_helpers", format!("square_to_castle_rights({:?}, {})", col(ci), s), rights(v["sqrights"][ci][q].as_i64().unwrap()),
                 CastleRights::square_to_castle_rights(col(ci), s));
        }
    }
    for q in 0..64usize {
        let s = Square::new(q as u8);
        chk!("castle_rights_helpers", format!("rook_square_to_castle_rights({})", s), rights(v["rookfile"][q].as_i64().unwrap()),
             CastleRights::rook_square_to_castle_rights(s));
    }
    // names of ranks, files and squares; the constant arrays in index order
    chk!("names", "NUM_RANKS / NUM_FILES / NUM_SQUARES", (8usize, 8usize, 64usize), (NUM_RANKS, NUM_FILES, NUM_SQUARES));
    for i in 0..8usize {
        chk!("names", format!("ALL_RANKS[{}].to_index()", i), i, ALL_RANKS[i].to_index());
        chk!("names", format!("ALL_FILES[{}].to_index()", i), i, ALL_FILES[i].to_index());
        let rn = v["ranknames"][i].as_str().unwrap();
        let fname = v["filenames"][i].as_str().unwrap();
        chk!("names", format!("Rank::from_str({:?})", rn), Some(i), Rank::from_str(rn).ok().map(|r| r.to_index()));
        chk!("names", format!("File::from_str({:?})", fname), Some(i), File::from_str(fname).ok().map(|r| r.to_index()));
    }
    for t in v["notarank"].as_array().unwrap() {
        let t = t.as_str().unwrap();
        chk!("names", format!("Rank::from_str({:?}) is refused", t), true, std::panic::catch_unwind(|| Rank::from_str(t).is_err()).unwrap_or(false));
    }
    for t in v["notafile"].as_array().unwrap() {
        let t = t.as_str().unwrap();
        chk!("names", format!("File::from_str({:?}) is refused", t), true, std::panic::catch_unwind(|| File::from_str(t).is_err()).unwrap_or(false));
    }
    let named: [Square; 64] = [
        Square::A1, Square::B1, Square::C1, Square::D1, Square::E1, Square::F1, Square::G1, Square::H1,
        Square::A2, Square::B2, Square::C2, Square::D2, Square::E2, Square::F2, Square::G2, Square::H2,
        Square::A3, Square::B3, Square::C3, Square::D3, Square::E3, Square::F3, Square::G3, Square::H3,
        Square::A4, Square::B4, Square::C4, Square::D4, Square::E4, Square::F4, Square::G4, Square::H4,
        Square::A5, Square::B5, Square::C5, Square::D5, Square::E5, Square::F5, Square::G5, Square::H5,
        Square::A6, Square::B6, Square::C6, Square::D6, Square::E6, Square::F6, Square::G6, Square::H6,
        Square::A7, Square::B7, Square::C7, Square::D7, Square::E7, Square::F7, Square::G7, Square::H7,
        Square::A8, Square::B8, Square::C8, Square::D8, Square::E8, Square::F8, Square::G8, Square::H8,
    ];
    for q in 0..64usize {
        let name = v["sqnames"][q].as_str().unwrap().to_string();
        chk!("names", format!("ALL_SQUARES[{}]", q), q, ALL_SQUARES[q].to_index());
        chk!("names", format!("Square constant {}", name.to_uppercase()), q, named[q].to_index());
        chk!("names", format!("Display of square {}", q), name.clone(), format!("{}", Square::new(q as u8)));
        chk!("names", format!("Square {} to_int", q), q as u8, Square::new(q as u8).to_int());
        // BitBoard as text, set(rank, file), from_maybe_square
        let one = BitBoard::from_square(Square::new(q as u8));
        chk!("bitboard_text", format!("Display of the bitboard {{{}}}", name), v["bbtext"][q].as_str().unwrap().to_string(), format!("{}", one));
        chk!("bitboard_misc", format!("BitBoard::set(rank, file) for {}", name), one, BitBoard::set(Rank::from_index(q / 8), File::from_index(q % 8)));
        chk!("bitboard_misc", format!("from_maybe_square(Some({}))", name), Some(one), BitBoard::from_maybe_square(Some(Square::new(q as u8))));
        chk!("bitboard_misc", format!("{{{}}}.to_size(0) and to_size(k)", name), ((1u64 << q) as usize, ((1u64 << q) >> (q as u32 / 2)) as usize), (one.to_size(0), one.to_size(q as u8 / 2)));
    }
    chk!("bitboard_misc", "from_maybe_square(None)", None::<BitBoard>, BitBoard::from_maybe_square(None));
    for e in v["bbtextsets"].as_array().unwrap() {
        let mut bb = EMPTY;
        for x in e[0].as_array().unwrap() {
            bb |= BitBoard::from_square(Square::new(x.as_i64().unwrap() as u8));
        }
        chk!("bitboard_text", format!("Display of the bitboard {:?}", set_of(&e[0])), e[1].as_str().unwrap().to_string(), format!("{}", bb));
    }
    // Board::default, BoardBuilder::default: the initial position
    {
        let init = "rnbqkbnr/pppppppp/8/8/8/8/PPPPPPPP/RNBQKBNR w KQkq - 0 1";
        let r = std::panic::catch_unwind(|| (format!("{}", Board::default()), format!("{}", BoardBuilder::default()), format!("{}", Game::new().current_position())));
        match r {
            Ok((a, b, c)) => {
                chk!("default_is_initial_position", "Board::default()", init.to_string(), a);
                chk!("default_is_initial_position", "BoardBuilder::default()", init.to_string(), b);
                chk!("default_is_initial_position", "Game::new().current_position()", init.to_string(), c);
            }
            Err(_) => rep.violation("SPEC", "default_is_initial_position", json!({"what": "panicked"})),
        }
        chk!("default_values", "Square::default()", 0usize, Square::default().to_index());
        chk!("default_values", "ChessMove::default()", (0usize, 0usize, None::<Piece>), {
            let m = ChessMove::default();
            (m.get_source().to_index(), m.get_dest().to_index(), m.get_promotion())
        });
        chk!("default_values", "BoardBuilder::new() is empty", "8/8/8/8/8/8/8/8 w - - 0 1".to_string(), format!("{}", BoardBuilder::new()));
    }
}

fn ordering(v: &Value, rep: &mut Report) {
    for t in v["cmp"].as_array().unwrap() {
        let a = mv_of(&t[0]);
        let b = mv_of(&t[1]);
        let exp = t[2].as_i64().unwrap();
        rep.count("vocab_order_pairs", 1);
        let got = ord(a.cmp(&b));
        let pgot = a.partial_cmp(&b).map(ord);
        let eq = a == b;
        let mut bad = vec![];
        if got != exp {
            bad.push("cmp");
        }
        if pgot != Some(exp) {
            bad.push("partial_cmp");
        }
        if eq != (exp == 0) {
            bad.push("eq");
        }
        if (a < b) != (exp < 0) || (a > b) != (exp > 0) || (a <= b) != (exp <= 0) {
            bad.push("operators");
        }
        if exp == 0 && h(&a) != h(&b) {
            bad.push("hash");
        }
        if a.get_source().to_index() as i64 != t[0][0].as_i64().unwrap() || a.get_dest().to_index() as i64 != t[0][1].as_i64().unwrap()
            || a.get_promotion() != piece_of(t[0][2].as_str().unwrap())
        {
            bad.push("getters");
        }
        if !bad.is_empty() {
            rep.violation("SPEC", "chess_move_ordering", json!({"a": t[0], "b": t[1], "expected": exp, "cmp": got, "partial_cmp": pgot, "eq": eq, "wrong": bad}));
        }
    }
}

fn main() {
    let args: Vec<String> = std::env::args().collect();
    let mut out = String::new();
    let mut i = 1;
    while i < args.len() {
        if args[i] == "--out" {
            out = args[i + 1].clone();
            i += 1;
        }
        i += 1;
    }
    std::panic::set_hook(Box::new(|_| {}));
    let mut rep = Report::new();
    for text in std::io::stdin().lock().lines() {
        let text = text.unwrap();
        if let Some(v) = parse_tlc_line(&text, "VREC") {
            rep.count("vocab_tables", 1);
            tables(&v, &mut rep);
        } else if let Some(v) = parse_tlc_line(&text, "VORD") {
            ordering(&v, &mut rep);
        }
    }
    if rep.counters.get("vocab_tables").copied().unwrap_or(0) == 0 {
        eprintln!("no VREC record on input");
        std::process::exit(2);
    }
    std::fs::write(&out, serde_json::to_string(&rep.to_json()).unwrap()).unwrap();
}
