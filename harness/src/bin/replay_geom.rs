//! Direction A for the finite geometric domains (C15, C16): TLC enumerated
//! them completely from module Geometry (`"GEOM ..."` and `"SLID ..."` lines
//! of MCGeom); every entry is compared with the library.  Built twice: the
//! default build and `-C target-feature=+bmi2` (where the pext/pdep lookups
//! are exported and compared as well).

use chess::*;
use chess_verif_harness::*;
use serde_json::{json, Value};
use std::io::BufRead;

fn set_bb(v: &Value) -> BitBoard {
    let mut b = EMPTY;
    for x in v.as_array().unwrap() {
        b |= BitBoard::from_square(Square::new(x.as_i64().unwrap() as u8));
    }
    b
}
fn sqs(b: BitBoard) -> Vec<u8> {
    bb_squares(b)
}
fn opt(s: Option<Square>) -> i64 {
    s.map(|x| x.to_index() as i64).unwrap_or(-1)
}

struct Rng(u64);
impl Rng {
    fn next(&mut self) -> u64 {
        self.0 = self.0.wrapping_add(0x9E3779B97F4A7C15);
        let mut z = self.0;
        z = (z ^ (z >> 30)).wrapping_mul(0xBF58476D1CE4E5B9);
        z = (z ^ (z >> 27)).wrapping_mul(0x94D049BB133111EB);
        z ^ (z >> 31)
    }
}

fn main() {
    let args: Vec<String> = std::env::args().collect();
    let mut out = String::new();
    let mut seed = 1u64;
    let mut i = 1;
    while i < args.len() {
        match args[i].as_str() {
            "--out" => {
                out = args[i + 1].clone();
                i += 1;
            }
            "--seed" => {
                seed = args[i + 1].parse().unwrap();
                i += 1;
            }
            _ => {}
        }
        i += 1;
    }
    std::panic::set_hook(Box::new(|_| {}));
    let mut rng = Rng(seed);
    let mut rep = Report::new();
    let build = if cfg!(target_feature = "bmi2") { "bmi2" } else { "default" };
    for text in std::io::stdin().lock().lines() {
        let text = match text {
            Ok(l) => l,
            Err(_) => continue,
        };
        if text.starts_with("\"SLID ") {
            let rec = parse_tlc_line(&text, "SLID").expect("SLID");
            let k = rec["k"].as_str().unwrap();
            let s = Square::new(rec["s"].as_i64().unwrap() as u8);
            let rays = set_bb(&rec["rays"]);
            let lib_rays = if k == "r" { get_rook_rays(s) } else { get_bishop_rays(s) };
            if lib_rays != rays {
                rep.violation("C16", "ray_set_wrong", json!({"kind": k, "square": s.to_index(), "expected": sqs(rays), "observed": sqs(lib_rays)}));
            }
            let off = !rays & !BitBoard::from_square(s);
            for e in rec["tab"].as_array().unwrap() {
                let occ = set_bb(&e[0]);
                let want = set_bb(&e[1]);
                // the squares off the rays (and the square itself) must not matter
                let noises = [EMPTY, off, BitBoard::new(rng.next()) & off, BitBoard::new(rng.next() & rng.next()) & off | BitBoard::from_square(s)];
                for nz in noises.iter() {
                    let full = occ | *nz;
                    let got = if k == "r" { get_rook_moves(s, full) } else { get_bishop_moves(s, full) };
                    rep.count("slider_lookups", 1);
                    if got != want {
                        rep.violation("C15", &format!("{}_lookup_wrong_{}", if k == "r" { "rook" } else { "bishop" }, build),
                            json!({"square": s.to_index(), "occupancy": sqs(full), "on_rays": sqs(occ), "expected": sqs(want), "observed": sqs(got)}));
                    }
                    #[cfg(target_feature = "bmi2")]
                    {
                        let g2 = if k == "r" { get_rook_moves_bmi(s, full) } else { get_bishop_moves_bmi(s, full) };
                        rep.count("bmi_lookups", 1);
                        if g2 != want {
                            rep.violation("C15", &format!("{}_bmi_lookup_wrong", if k == "r" { "rook" } else { "bishop" }),
                                json!({"square": s.to_index(), "occupancy": sqs(full), "expected": sqs(want), "observed": sqs(g2)}));
                        }
                    }
                }
            }
            rep.count("slider_tables", 1);
            rep.sample("slider", json!({"kind": k, "square": s.to_index(), "subsets": rec["tab"].as_array().unwrap().len()}), 3);
        } else if text.starts_with("\"GEOM ") {
            let rec = parse_tlc_line(&text, "GEOM").expect("GEOM");
            let qi = rec["s"].as_i64().unwrap() as u8;
            let q = Square::new(qi);
            rep.count("squares", 1);
            let mut cmp = |name: &str, got: BitBoard, want: &Value, rep: &mut Report| {
                let w = set_bb(want);
                if got != w {
                    rep.violation("C16", &format!("{}_wrong", name), json!({"square": qi, "expected": sqs(w), "observed": sqs(got)}));
                }
            };
            cmp("king_moves", get_king_moves(q), &rec["king"], &mut rep);
            cmp("knight_moves", get_knight_moves(q), &rec["knight"], &mut rep);
            cmp("white_pawn_attacks", get_pawn_attacks(q, Color::White, !EMPTY), &rec["pattw"], &mut rep);
            cmp("black_pawn_attacks", get_pawn_attacks(q, Color::Black, !EMPTY), &rec["pattb"], &mut rep);
            cmp("rank_set", get_rank(q.get_rank()), &rec["rankset"], &mut rep);
            cmp("file_set", get_file(q.get_file()), &rec["fileset"], &mut rep);
            cmp("adjacent_files", get_adjacent_files(q.get_file()), &rec["adj"], &mut rep);
            cmp("rook_rays", get_rook_rays(q), &rec["rookrays"], &mut rep);
            cmp("bishop_rays", get_bishop_rays(q), &rec["bishoprays"], &mut rep);
            if (EDGES & BitBoard::from_square(q) != EMPTY) != rec["edge"].as_bool().unwrap() {
                rep.violation("C16", "edges_wrong", json!({"square": qi}));
            }
            if q.get_file().to_index() as i64 != rec["file"].as_i64().unwrap() || q.get_rank().to_index() as i64 != rec["rank"].as_i64().unwrap()
                || Square::make_square(q.get_rank(), q.get_file()) != q {
                rep.violation("C16", "file_rank_of_square_wrong", json!({"square": qi}));
            }
            // index arithmetic of squares, ranks and files
            if let Some(ar) = rec.get("arith") {
                for (k, v) in ar["sqnew"].as_array().unwrap().iter().enumerate() {
                    let arg = (qi as usize + 64 * k) as u8;
                    if k < 4 && (qi as usize + 64 * k) < 256 && Square::new(arg).to_index() as i64 != v.as_i64().unwrap() {
                        rep.violation("C16", "square_new_wraps_wrong", json!({"arg": arg, "expected": v, "observed": Square::new(arg).to_index()}));
                    }
                }
                for i in 0..16usize {
                    rep.count("index_arithmetic", 2);
                    if Rank::from_index(i).to_index() as i64 != ar["rankfrom"][i].as_i64().unwrap() {
                        rep.violation("C16", "rank_from_index_wrong", json!({"arg": i, "observed": Rank::from_index(i).to_index()}));
                    }
                    if File::from_index(i).to_index() as i64 != ar["filefrom"][i].as_i64().unwrap() {
                        rep.violation("C16", "file_from_index_wrong", json!({"arg": i, "observed": File::from_index(i).to_index()}));
                    }
                }
                let rk = q.get_rank();
                let fl = q.get_file();
                let pairs: Vec<(&str, i64)> = vec![("rankup", rk.up().to_index() as i64), ("rankdown", rk.down().to_index() as i64),
                    ("fileright", fl.right().to_index() as i64), ("fileleft", fl.left().to_index() as i64)];
                for (name, got) in pairs {
                    if ar[name].as_i64().unwrap() != got {
                        rep.violation("C16", &format!("{}_wrong", name), json!({"square": qi, "expected": ar[name], "observed": got}));
                    }
                }
                for r in 0..8usize {
                    for f in 0..8usize {
                        let s = Square::make_square(Rank::from_index(r), File::from_index(f));
                        if s.to_index() as i64 != ar["make"][r][f].as_i64().unwrap() || s.get_rank().to_index() != r || s.get_file().to_index() != f
                            || ALL_SQUARES[r * 8 + f] != s || ALL_RANKS[r] != Rank::from_index(r) || ALL_FILES[f] != File::from_index(f) {
                            rep.violation("C16", "make_square_wrong", json!({"rank": r, "file": f, "observed": s.to_index()}));
                        }
                    }
                }
            }
            for b in 0..64u8 {
                let p = Square::new(b);
                cmp(&format!("between"), between(q, p), &rec["between"][b as usize], &mut rep);
                cmp(&format!("line"), line(q, p), &rec["line"][b as usize], &mut rep);
                rep.count("pairs", 1);
            }
            let st = &rec["steps"];
            let checks: Vec<(&str, i64)> = vec![
                ("up", opt(q.up())), ("down", opt(q.down())), ("left", opt(q.left())), ("right", opt(q.right())),
                ("fw", opt(q.forward(Color::White))), ("fb", opt(q.forward(Color::Black))),
                ("bw", opt(q.backward(Color::White))), ("bb", opt(q.backward(Color::Black))),
                ("uup", q.uup().to_index() as i64), ("udown", q.udown().to_index() as i64),
                ("uleft", q.uleft().to_index() as i64), ("uright", q.uright().to_index() as i64),
                ("ufw", q.uforward(Color::White).to_index() as i64), ("ufb", q.uforward(Color::Black).to_index() as i64),
                ("ubw", q.ubackward(Color::White).to_index() as i64), ("ubb", q.ubackward(Color::Black).to_index() as i64),
            ];
            for (name, got) in checks {
                rep.count("step_helpers", 1);
                if st[name].as_i64().unwrap() != got {
                    rep.violation("C16", &format!("step_{}_wrong", name), json!({"square": qi, "expected": st[name], "observed": got}));
                }
            }
            for (c, key) in [(Color::White, "pawnw"), (Color::Black, "pawnb")].iter() {
                for e in rec[*key].as_array().unwrap() {
                    let occ = set_bb(&e[0]);
                    let quiets = set_bb(&e[1]);
                    let atts = set_bb(&e[2]);
                    let relevant = {
                        // everything the spec enumerated over for this pawn: noise goes elsewhere
                        let mut r = EMPTY;
                        for e2 in rec[*key].as_array().unwrap() {
                            r |= set_bb(&e2[0]);
                        }
                        r
                    };
                    let off = !relevant & !BitBoard::from_square(q);
                    for nz in [EMPTY, off, BitBoard::new(rng.next()) & off].iter() {
                        let full = occ | *nz;
                        rep.count("pawn_lookups", 1);
                        let gq = get_pawn_quiets(q, *c, full);
                        let ga = get_pawn_attacks(q, *c, full);
                        let gm = get_pawn_moves(q, *c, full);
                        if gq != quiets {
                            rep.violation("C16", "pawn_quiets_wrong", json!({"square": qi, "colour": key, "occupancy": sqs(full), "expected": sqs(quiets), "observed": sqs(gq)}));
                        }
                        if ga != atts {
                            rep.violation("C16", "pawn_attacks_wrong", json!({"square": qi, "colour": key, "occupancy": sqs(full), "expected": sqs(atts), "observed": sqs(ga)}));
                        }
                        if gm != (quiets | atts) {
                            rep.violation("C16", "pawn_moves_wrong", json!({"square": qi, "colour": key, "occupancy": sqs(full), "expected": sqs(quiets | atts), "observed": sqs(gm)}));
                        }
                    }
                }
            }
            rep.sample("geom", json!({"square": rec["name"], "knight": rec["knight"], "between_to_h8": rec["between"][63]}), 2);
        }
    }
    let text = serde_json::to_string_pretty(&rep.to_json()).unwrap();
    if out.is_empty() {
        println!("{}", text);
    } else {
        std::fs::write(&out, text).unwrap();
    }
}
