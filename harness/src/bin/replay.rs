//! Direction A (spec -> implementation): walk the state graph that TLC
//! printed from the TLA+ specification through the real library and compare
//! the projection of the concrete state with each record.
//!
//! stdin : TLC output containing `"REC {json}"` lines (module MCBoard)
//! args  : --props C01,C02,..  --sweep all|sel|none  --seed N  --threads N
//!         --out report.json  --mapcap N
//! exit  : 0 always unless the input is unusable (2); violations are in the
//!         report, which the check driver turns into VIOLATION lines.

use chess::*;
use chess_verif_harness::*;
use serde_json::{json, Value};
use std::collections::HashMap;
use std::collections::HashSet;
use std::convert::TryFrom;
use std::hash::{Hash, Hasher};
use std::io::{self, BufRead};
use std::str::FromStr;

struct Cfg {
    props: HashSet<String>,
    sweep: String,
    seed: u64,
    threads: usize,
    out: String,
    mapcap: usize,
}

fn has(cfg: &Cfg, p: &str) -> bool {
    cfg.props.contains(p)
}

/// A Hasher that records exactly what `Hash for Board` feeds it.
struct Capture(Vec<u8>);
impl Hasher for Capture {
    fn finish(&self) -> u64 {
        0
    }
    fn write(&mut self, bytes: &[u8]) {
        self.0.extend_from_slice(bytes);
    }
}
fn std_hash_bytes(b: &Board) -> Vec<u8> {
    let mut c = Capture(vec![]);
    b.hash(&mut c);
    c.0
}

fn rng_next(s: &mut u64) -> u64 {
    // splitmix64
    *s = s.wrapping_add(0x9E3779B97F4A7C15);
    let mut z = *s;
    z = (z ^ (z >> 30)).wrapping_mul(0xBF58476D1CE4E5B9);
    z = (z ^ (z >> 27)).wrapping_mul(0x94D049BB133111EB);
    z ^ (z >> 31)
}

struct Item {
    rec: Value,
    sp: Pos,
    board: Board,
    incremental: bool,
}

fn set_of(v: &Value) -> Vec<u8> {
    let mut r: Vec<u8> = v.as_array().map(|a| a.iter().map(|x| x.as_i64().unwrap() as u8).collect()).unwrap_or_default();
    r.sort();
    r
}

fn spec_moves(rec: &Value) -> Vec<(u8, u8, String)> {
    rec["mv"]
        .as_array()
        .unwrap()
        .iter()
        .map(|m| (m[0].as_i64().unwrap() as u8, m[1].as_i64().unwrap() as u8, m[2].as_str().unwrap().to_string()))
        .collect()
}

fn fen4(s: &str) -> String {
    s.split(' ').take(4).collect::<Vec<_>>().join(" ")
}

/// Phase 1 (sequential): locate the concrete board for the record's state,
/// play every spec move through both entry points, compare successors, feed
/// the transposition / hash maps.
fn phase1(
    cfg: &Cfg,
    rec: Value,
    map: &mut HashMap<[u8; 67], Board>,
    alts: &mut HashMap<[u8; 67], Vec<Board>>,
    built: &mut HashSet<[u8; 67]>,
    hmap: &mut HashMap<u64, [u8; 67]>,
    rep: &mut Report,
    dirty: &Board,
) -> Vec<Item> {
    let fen = rec["fen"].as_str().unwrap().to_string();
    let sp = pos_from_spec_fen(&fen);
    // internal consistency of the record itself (tool error if broken)
    let cr_explicit: u8 = rec["cr"].as_array().unwrap().iter().map(|x| cr_bit(x.as_str().unwrap())).sum();
    if sp.stm != rec["stm"].as_str().unwrap().as_bytes()[0] || sp.cr != cr_explicit || sp.ep as i64 != rec["ep"].as_i64().unwrap() {
        eprintln!("TOOL-ERROR: record fields disagree with its own fen: {}", fen);
        std::process::exit(2);
    }
    let key = sp.key();
    rep.count("records", 1);
    let (board, incremental) = match map.get(&key) {
        Some(b) => {
            // (a state built from the spec's text stays "not reached by moves" when its record comes again in another set)
            let inc = !built.contains(&key);
            if inc {
                rep.count("states_reached_incrementally", 1);
            }
            (*b, inc)
        }
        None => {
            // a root, or a state whose en-passant don't-care the library resolved the other way
            rep.count("states_built_from_spec_fen", 1);
            let parsed = std::panic::catch_unwind(|| Board::from_str(&fen));
            let b = match parsed {
                Ok(Ok(b)) => b,
                Ok(Err(e)) => {
                    let v = json!({"fen": fen, "what": "a valid position written by the standard FEN writer is rejected", "error": format!("{:?}", e)});
                    if has(cfg, "C06") {
                        rep.violation("C06", "std_fen_rejected", v.clone());
                    }
                    if has(cfg, "C07") {
                        rep.violation("C07", "valid_position_rejected", v);
                    }
                    return vec![];
                }
                Err(_) => {
                    if has(cfg, "C07") {
                        rep.violation("C07", "panic_in_from_str", json!({"fen": fen}));
                    }
                    return vec![];
                }
            };
            let pb = proj(&b);
            if pb != sp {
                // the branch of the en-passant don't-care the library does not take: the square is recorded in the spec's state
                // although nobody can capture there, and the library's reader drops it (as its move maker does, or this state
                // would have been reached by moves) - the library has no such state; its twin without the square is examined
                let mut twin = sp;
                twin.ep = -1;
                let ep_usable = rec["mv"].as_array().unwrap().iter().any(|mv| {
                    let f = mv[0].as_i64().unwrap() as usize;
                    let t = mv[1].as_i64().unwrap() as i8;
                    (sp.sq[f] == b'P' || sp.sq[f] == b'p') && t == sp.ep && (f as i8 & 7) != (t & 7)
                });
                if sp.ep >= 0 && pb == twin && !ep_usable {
                    rep.count("dont_care_states_the_library_does_not_represent", 1);
                    return vec![];
                }
                if has(cfg, "C06") {
                    rep.violation(
                        "C06",
                        "std_fen_misread",
                        json!({"fen": fen, "expected": sp.describe(), "observed": pb.describe()}),
                    );
                }
                return vec![];
            }
            map.insert(key, b);
            built.insert(key);
            (b, false)
        }
    };

    // ---- C08 / C09 bookkeeping over distinct spec states ----
    if has(cfg, "C08") || has(cfg, "C09") {
        let h = board.get_hash();
        match hmap.get(&h) {
            Some(k2) if *k2 != key => {
                if has(cfg, "C09") {
                    rep.violation(
                        "C09",
                        "hash_collision_between_distinct_positions",
                        json!({"a": sp.describe(), "b": String::from_utf8_lossy(&k2[..64]).to_string(), "hash": h.to_string()}),
                    );
                }
            }
            Some(_) => {}
            None => {
                hmap.insert(h, key);
            }
        }
        rep.count("distinct_hashes", 0);
    }

    // ---- edges ----
    let before = board;
    let men_before = [board.color_combined(Color::White).popcnt(), board.color_combined(Color::Black).popcnt()];
    let pawns_before = [
        (board.pieces(Piece::Pawn) & board.color_combined(Color::White)).popcnt(),
        (board.pieces(Piece::Pawn) & board.color_combined(Color::Black)).popcnt(),
    ];
    for mv in rec["mv"].as_array().unwrap() {
        let f = mv[0].as_i64().unwrap() as u8;
        let t = mv[1].as_i64().unwrap() as u8;
        let p = mv[2].as_str().unwrap();
        let m = mk_move(f, t, p);
        // the library documents a panic if the source square is empty: guard
        if board.piece_on(m.get_source()).is_none() {
            // cannot happen if the state matched; reported by the state comparison
            continue;
        }
        let r = std::panic::catch_unwind(|| {
            let n1 = board.make_move_new(m);
            let mut n2 = *dirty;
            board.make_move(m, &mut n2);
            // other things the output board may hold beforehand: the source itself, the source with other castling
            // rights (same placement and mover), the result of an earlier call
            let mut n3 = board;
            board.make_move(m, &mut n3);
            let mut n4 = board;
            #[allow(deprecated)]
            {
                n4.remove_castle_rights(Color::White, CastleRights::Both);
                n4.remove_castle_rights(Color::Black, CastleRights::KingSide);
            }
            board.make_move(m, &mut n4);
            let mut n5 = n1;
            board.make_move(m, &mut n5);
            (n1, n2, [n3, n4, n5])
        });
        let (n1, n2, others) = match r {
            Ok(x) => x,
            Err(_) => {
                if has(cfg, "C02") {
                    rep.violation("C02", "panic_applying_legal_move", json!({"fen": fen, "move": [f, t, p]}));
                }
                continue;
            }
        };
        rep.count("edges", 1);
        if has(cfg, "C02") {
            if n1 != n2 {
                rep.violation(
                    "C02",
                    "entry_points_disagree",
                    json!({"fen": fen, "move": [f, t, p], "make_move_new": proj(&n1).describe(), "make_move": proj(&n2).describe(),
                           "hash_new": n1.get_hash().to_string(), "hash_into": n2.get_hash().to_string()}),
                );
            }
            if board != before {
                rep.violation("C02", "source_modified", json!({"fen": fen, "move": [f, t, p]}));
            }
            for (k, o) in others.iter().enumerate() {
                if *o != n1 {
                    let held = ["the source", "the source with other castling rights", "an earlier result"][k];
                    rep.violation("C02", "result_depends_on_previous_content_of_output_board",
                        json!({"fen": fen, "move": [f, t, p], "output_held": held,
                               "observed": proj(o).describe(), "expected": proj(&n1).describe()}));
                }
            }
        }
        // expected successor from the spec
        let mut ex = sp;
        for d in mv[3].as_array().unwrap() {
            ex.sq[d[0].as_i64().unwrap() as usize] = d[1].as_str().unwrap().as_bytes()[0];
        }
        ex.stm = if sp.stm == b'w' { b'b' } else { b'w' };
        let lost: u8 = mv[4].as_array().unwrap().iter().map(|x| cr_bit(x.as_str().unwrap())).sum();
        ex.cr = sp.cr & !lost;
        let allowed: Vec<i64> = mv[5].as_array().unwrap().iter().map(|x| x.as_i64().unwrap()).collect();
        let pn = proj(&n1);
        ex.ep = pn.ep;
        let ep_ok = allowed.contains(&(pn.ep as i64));
        if pn.ep >= 0 {
            rep.count("edges_recording_en_passant", 1);
        }
        if allowed.len() > 1 {
            rep.count("edges_with_en_passant_dont_care", 1);
        }
        if has(cfg, "C02") && (pn != ex || !ep_ok) {
            let kind = if pn.sq != ex.sq {
                "successor_placement"
            } else if pn.stm != ex.stm {
                "successor_side_to_move"
            } else if pn.cr != ex.cr {
                "successor_castling_rights"
            } else {
                "successor_en_passant"
            };
            let mut exd = ex;
            exd.ep = allowed[0] as i8;
            rep.violation(
                "C02",
                kind,
                json!({"fen": fen, "move": [f, t, p], "expected": exd.describe(), "allowed_ep": allowed, "observed": pn.describe()}),
            );
        }
        // derived state of the successor: spec-computed checkers / pinned men, and the same position built afresh
        if pn == ex && ep_ok && (has(cfg, "C03") || has(cfg, "C08")) {
            if has(cfg, "C03") && mv.as_array().unwrap().len() >= 8 {
                let want_chk = set_of(&mv[6]);
                let want_pin = set_of(&mv[7]);
                let got_chk = bb_squares(*n1.checkers());
                let got_pin = bb_squares(*n1.pinned() & *n1.color_combined(n1.side_to_move()));
                if got_chk != want_chk {
                    rep.violation("C03", "successor_checkers_wrong", json!({"fen": fen, "move": [f, t, p], "expected": want_chk, "observed": got_chk}));
                }
                if got_pin != want_pin {
                    rep.violation("C03", "successor_pinned_wrong", json!({"fen": fen, "move": [f, t, p], "expected": want_pin, "observed": got_pin}));
                }
                let got_chk2 = bb_squares(*n2.checkers());
                let got_pin2 = bb_squares(*n2.pinned() & *n2.color_combined(n2.side_to_move()));
                if got_chk2 != want_chk || got_pin2 != want_pin {
                    rep.violation("C03", "successor_derived_state_wrong_via_make_move_into", json!({"fen": fen, "move": [f, t, p],
                        "expected": [want_chk, want_pin], "observed": [got_chk2, got_pin2]}));
                }
            }
            match Board::try_from(&pos_to_builder(&ex)) {
                Ok(fresh) => {
                    if has(cfg, "C03") && fresh != n1 {
                        rep.violation(
                            "C03",
                            "successor_differs_from_fresh_construction",
                            json!({"fen": fen, "move": [f, t, p], "successor": ex.describe(),
                                   "checkers": [bb_squares(*n1.checkers()), bb_squares(*fresh.checkers())],
                                   "pinned": [bb_squares(*n1.pinned()), bb_squares(*fresh.pinned())],
                                   "hash": [n1.get_hash().to_string(), fresh.get_hash().to_string()]}),
                        );
                    }
                    if has(cfg, "C08") && n2.get_hash() != n1.get_hash() {
                        rep.violation("C08", "hash_differs_between_entry_points", json!({"fen": fen, "move": [f, t, p],
                            "hash": [n1.get_hash().to_string(), n2.get_hash().to_string()]}));
                    }
                    if has(cfg, "C08") && fresh.get_hash() != n1.get_hash() {
                        rep.violation(
                            "C08",
                            "successor_hash_differs_from_fresh_construction",
                            json!({"fen": fen, "move": [f, t, p], "successor": ex.describe(),
                                   "hash": [n1.get_hash().to_string(), fresh.get_hash().to_string()]}),
                        );
                    }
                }
                Err(_) => {
                    if has(cfg, "C03") {
                        rep.violation("C03", "successor_not_constructible", json!({"fen": fen, "move": [f, t, p], "successor": ex.describe()}));
                    }
                }
            }
        }
        if has(cfg, "C06") && pn == ex && ep_ok && (t as i32 - f as i32).abs() == 16 && (sp.sq[f as usize] == b'P' || sp.sq[f as usize] == b'p') {
            // after a double push a standard writer names the square passed over, whoever can or cannot capture there.  That text
            // must be read as THE POSITION JUST REACHED: whatever the move maker decided about recording the square, the
            // reader has to decide the same (equality includes the derived state and the hash)
            let mut stdp = ex;
            stdp.ep = ((f as i32 + t as i32) / 2) as i8;
            let std = format!("{} 0 1", stdp.describe());
            rep.count("double_push_edges_std_text_parsed", 1);
            match Board::from_str(&std) {
                Ok(x) => {
                    if x != n1 {
                        rep.violation("C06", "standard_fen_parse_not_equal_to_reached_board", json!({"fen": fen, "move": [f, t, p], "std": std,
                            "reached": pn.describe(), "parsed": proj(&x).describe(),
                            "hash": [n1.get_hash().to_string(), x.get_hash().to_string()]}));
                    }
                }
                Err(e) => rep.violation("C06", "standard_fen_rejected", json!({"std": std, "error": format!("{:?}", e)})),
            }
        }
        if has(cfg, "C06") {
            // the in-place result must render (and re-parse) like the other one
            let t1 = format!("{}", n1);
            let t2 = format!("{}", n2);
            if t1 != t2 {
                rep.violation("C06", "rendering_differs_between_entry_points", json!({"fen": fen, "move": [f, t, p], "make_move_new": t1, "make_move": t2}));
            } else if Board::from_str(&t2).map(|x| x != n2).unwrap_or(true) {
                rep.violation("C06", "successor_rendering_does_not_round_trip", json!({"fen": fen, "move": [f, t, p], "rendered": t2}));
            }
        }
        if has(cfg, "C04") && n1.status() != n2.status() {
            rep.violation("C04", "status_differs_between_entry_points", json!({"fen": fen, "move": [f, t, p],
                "after_make_move_new": format!("{:?}", n1.status()), "after_make_move": format!("{:?}", n2.status())}));
        }
        if has(cfg, "C18") {
            // the result of the in-place entry point must pass (or refuse to pass) exactly like the other one
            match (n1.null_move(), n2.null_move()) {
                (Some(a), Some(b2)) => {
                    if a != b2 {
                        rep.violation("C18", "null_move_differs_between_entry_points", json!({"fen": fen, "move": [f, t, p]}));
                    }
                }
                (None, None) => {}
                (a, _) => rep.violation("C18", "null_move_availability_differs_between_entry_points",
                    json!({"fen": fen, "move": [f, t, p], "after_make_move_new": a.is_some()})),
            }
            if mv.as_array().unwrap().len() >= 8 {
                let in_check = !set_of(&mv[6]).is_empty();
                if n2.null_move().is_some() == in_check {
                    rep.violation("C18", "null_move_refusal_wrong_after_make_move_into", json!({"fen": fen, "move": [f, t, p], "in_check": in_check}));
                }
                if n1.null_move().is_some() == in_check {
                    rep.violation("C18", "null_move_refusal_wrong_on_successor", json!({"fen": fen, "move": [f, t, p], "in_check": in_check}));
                }
            }
        }
        if has(cfg, "C05") {
            // every reached position is again a valid one: judged on the library's own successor
            if !n1.is_sane() {
                rep.violation("C05", "successor_not_sane", json!({"fen": fen, "move": [f, t, p], "after": pn.describe()}));
            }
            let kings_w = pn.sq.iter().filter(|c| **c == b'K').count();
            let kings_b = pn.sq.iter().filter(|c| **c == b'k').count();
            if kings_w != 1 || kings_b != 1 {
                rep.violation("C05", "successor_king_count", json!({"fen": fen, "move": [f, t, p], "after": pn.describe()}));
            }
            if (0..8).any(|i| pn.sq[i] == b'P' || pn.sq[i] == b'p' || pn.sq[56 + i] == b'P' || pn.sq[56 + i] == b'p') {
                rep.violation("C05", "successor_pawn_on_back_rank", json!({"fen": fen, "move": [f, t, p], "after": pn.describe()}));
            }
            if pn != ex || !ep_ok {
                rep.violation("C05", "successor_outside_specified_state_space", json!({"fen": fen, "move": [f, t, p], "after": pn.describe()}));
            }
            let mn = [n1.color_combined(Color::White).popcnt(), n1.color_combined(Color::Black).popcnt()];
            let pw = [
                (n1.pieces(Piece::Pawn) & n1.color_combined(Color::White)).popcnt(),
                (n1.pieces(Piece::Pawn) & n1.color_combined(Color::Black)).popcnt(),
            ];
            let crn = rights_mask(&n1);
            if crn & !sp.cr != 0 {
                rep.violation("C05", "castling_right_came_back", json!({"fen": fen, "move": [f, t, p], "after": pn.describe()}));
            }
            if mn[0] > men_before[0] || mn[1] > men_before[1] {
                rep.violation("C05", "men_grew", json!({"fen": fen, "move": [f, t, p], "after": pn.describe()}));
            }
            if pw[0] > pawns_before[0] || pw[1] > pawns_before[1] {
                rep.violation("C05", "pawns_grew", json!({"fen": fen, "move": [f, t, p], "after": pn.describe()}));
            }
        }
        // a successor that is NOT the one the rules prescribe is reported above (C02); the board the library produced is what
        // its user plays on, so it is also examined against the record of the true successor (moves, status, derived state)
        if !(pn == ex && ep_ok) && pn.sq == ex.sq && pn.stm == ex.stm {
            for e in allowed.iter() {
                let mut t = ex;
                t.ep = *e as i8;
                t.cr = sp.cr & !lost;
                let e2 = alts.entry(t.key()).or_insert_with(Vec::new);
                if e2.len() < 4 && !e2.contains(&n1) {
                    e2.push(n1);
                }
            }
        }
        // transpositions: later arrivals at a state must be indistinguishable from the first
        if pn == ex && ep_ok {
            let k2 = pn.key();
            // the in-place entry point's result, when it is not indistinguishable from the other one although it shows the
            // same position: every per-state comparison is then made on it too (moves generated from it, status, ...)
            if n2 != n1 && proj(&n2) == pn {
                let e = alts.entry(k2.clone()).or_insert_with(Vec::new);
                if e.len() < 4 && !e.contains(&n2) {
                    e.push(n2);
                }
            }
            match map.get(&k2) {
                Some(first) => {
                    rep.count("transposition_arrivals", 1);
                    if has(cfg, "C08") {
                        if first.get_hash() != n1.get_hash() {
                            rep.violation(
                                "C08",
                                "hash_depends_on_path",
                                json!({"position": pn.describe(), "via_fen": fen, "via_move": [f, t, p],
                                       "hash_first": first.get_hash().to_string(), "hash_now": n1.get_hash().to_string()}),
                            );
                        }
                        if (*first == n1) && std_hash_bytes(first) != std_hash_bytes(&n1) {
                            rep.violation("C08", "std_hash_inconsistent_with_eq", json!({"position": pn.describe()}));
                        }
                    }
                    if *first != n1 {
                        // a later arrival that is not indistinguishable from the first: keep it, so that every
                        // per-state comparison is also made on this board when the state's record comes
                        let e = alts.entry(k2).or_insert_with(Vec::new);
                        if e.len() < 4 && !e.contains(&n1) {
                            e.push(n1);
                        }
                    }
                    if has(cfg, "C03") && *first != n1 {
                        rep.violation(
                            "C03",
                            "same_position_not_equal_across_paths",
                            json!({"position": pn.describe(), "via_fen": fen, "via_move": [f, t, p],
                                   "checkers": [bb_squares(*first.checkers()), bb_squares(*n1.checkers())],
                                   "pinned": [bb_squares(*first.pinned()), bb_squares(*n1.pinned())]}),
                        );
                    }
                }
                None => {
                    if map.len() < cfg.mapcap {
                        map.insert(k2, n1);
                    } else {
                        rep.count("map_full_successor_not_stored", 1);
                    }
                }
            }
        }
    }
    let mut items = vec![];
    if let Some(v) = alts.get(&key) {
        for b2 in v.iter() {
            if *b2 != board {
                rep.count("alternative_arrivals_examined", 1);
                items.push(Item { rec: rec.clone(), sp, board: *b2, incremental: true });
            }
        }
    }
    items.insert(0, Item { rec, sp, board, incremental });
    items
}

fn movegen_list(b: &Board) -> Vec<ChessMove> {
    MoveGen::new_legal(b).collect()
}

fn compare_moves(prop: &str, kind_prefix: &str, fen: &str, listed: &Vec<ChessMove>, spec: &Vec<(u8, u8, String)>, rep: &mut Report) {
    let mut got: Vec<(u8, u8, String)> = listed.iter().map(|m| { let (f, t, p) = mv_triple(*m); (f, t, p.to_string()) }).collect();
    got.sort();
    let mut dup = vec![];
    for i in 1..got.len() {
        if got[i] == got[i - 1] {
            dup.push(got[i].clone());
        }
    }
    let mut exp = spec.clone();
    exp.sort();
    let gs: HashSet<_> = got.iter().cloned().collect();
    let es: HashSet<_> = exp.iter().cloned().collect();
    let missing: Vec<_> = es.difference(&gs).cloned().collect();
    let extra: Vec<_> = gs.difference(&es).cloned().collect();
    if !missing.is_empty() {
        rep.violation(prop, &format!("{}missing_moves", kind_prefix), json!({"fen": fen, "missing": missing, "n_expected": exp.len(), "n_got": got.len()}));
    }
    if !extra.is_empty() {
        rep.violation(prop, &format!("{}extra_moves", kind_prefix), json!({"fen": fen, "extra": extra, "n_expected": exp.len(), "n_got": got.len()}));
    }
    if !dup.is_empty() {
        rep.violation(prop, &format!("{}duplicate_moves", kind_prefix), json!({"fen": fen, "duplicates": dup}));
    }
}

fn wants_sweep(cfg: &Cfg, it: &Item, idx: u64) -> bool {
    match cfg.sweep.as_str() {
        "all" => true,
        "none" => false,
        _ => {
            let b = &it.board;
            let stm = b.side_to_move();
            let seventh = (b.pieces(Piece::Pawn) & b.color_combined(stm) & get_rank(stm.to_seventh_rank())) != EMPTY;
            it.sp.ep >= 0 || it.sp.cr != 0 || seventh || *b.checkers() != EMPTY || {
                let mut s = cfg.seed ^ idx.wrapping_mul(0x2545F4914F6CDD1D);
                rng_next(&mut s) % 16 == 0
            }
        }
    }
}

/// Phase 2 (parallel): everything that looks only at one state.
fn phase2(cfg: &Cfg, it: &Item, idx: u64, rep: &mut Report) {
    let b = &it.board;
    let rec = &it.rec;
    let fen = rec["fen"].as_str().unwrap();
    let sp = &it.sp;
    let spec = spec_moves(rec);
    let own = *b.color_combined(b.side_to_move());

    // feature counters (non-vacuity evidence)
    if sp.ep >= 0 {
        rep.count("states_with_en_passant", 1);
    }
    if sp.cr != 0 {
        rep.count("states_with_castling_rights", 1);
    }
    let chk = set_of(&rec["chk"]);
    let pin = set_of(&rec["pin"]);
    if chk.len() == 1 {
        rep.count("states_in_single_check", 1);
    }
    if chk.len() == 2 {
        rep.count("states_in_double_check", 1);
    }
    if !pin.is_empty() {
        rep.count("states_with_pins", 1);
    }
    let st = rec["st"].as_str().unwrap();
    match st {
        "Checkmate" => rep.count("checkmates", 1),
        "Stalemate" => rep.count("stalemates", 1),
        _ => {}
    }
    for m in spec.iter() {
        if m.2 != "-" {
            rep.count("promotion_moves", 1);
        }
        let pc = sp.sq[m.0 as usize];
        if (pc == b'K' || pc == b'k') && ((m.0 as i32 & 7) - (m.1 as i32 & 7)).abs() == 2 {
            rep.count("castling_moves", 1);
        }
        if (pc == b'P' || pc == b'p') && sp.ep >= 0 && m.1 as i8 == sp.ep && (m.0 & 7) != (m.1 & 7) {
            rep.count("en_passant_captures", 1);
        }
        if pin.contains(&m.0) {
            rep.count("moves_by_pinned_men", 1);
        }
    }
    rep.sample("states", json!({"fen": fen, "legal_moves": spec.len(), "status": st, "incremental": it.incremental}), 3);

    // ---------------- C01 ----------------
    if has(cfg, "C01") {
        let listed = movegen_list(b);
        compare_moves("C01", "", fen, &listed, &spec, rep);
        let len = MoveGen::new_legal(b).len();
        if len != spec.len() {
            rep.violation("C01", "fresh_len_wrong", json!({"fen": fen, "len": len, "expected": spec.len()}));
        }
        // the public perft helper (the piecewise one is test-only) (beyond the listed properties: a divergence is a NOTE, not a verdict): depth 1 is the
        // number of legal moves; depth 2 (sampled) is the sum of the successors' move counts
        {
            let p1 = MoveGen::movegen_perft_test(b, 1);
            rep.count("perft_calls", 1);
            if p1 != spec.len() {
                rep.violation("SPEC", "perft_depth_1_is_not_the_number_of_legal_moves", json!({"fen": fen, "expected": spec.len(), "perft": p1}));
            }
            if idx % 16 == 3 {
                let sum: usize = listed.iter().map(|m| MoveGen::new_legal(&b.make_move_new(*m)).len()).sum();
                let p2 = MoveGen::movegen_perft_test(b, 2);
                rep.count("perft_calls", 1);
                if p2 != sum {
                    rep.violation("SPEC", "perft_depth_2_is_not_the_sum_over_successors", json!({"fen": fen, "expected": sum, "perft": p2}));
                }
            }
        }
        #[allow(deprecated)]
        {
            let mut buf = [ChessMove::default(); 256];
            let n = b.enumerate_moves(&mut buf);
            let v: Vec<ChessMove> = buf[..n].to_vec();
            compare_moves("C01", "enumerate_", fen, &v, &spec, rep);
        }
        let es: HashSet<(u8, u8, String)> = spec.iter().cloned().collect();
        for m in listed.iter() {
            let (f, t, p) = mv_triple(*m);
            if es.contains(&(f, t, p.to_string())) && !MoveGen::legal_quick(b, *m) {
                rep.violation("C01", "legal_quick_rejects_generated_legal_move", json!({"fen": fen, "move": [f, t, p.to_string()]}));
            }
        }
        let promos = ["-", "n", "b", "r", "q"];
        if wants_sweep(cfg, it, idx) {
            rep.count("full_legality_sweeps", 1);
            let mut wrong_true = vec![];
            let mut wrong_false = vec![];
            for f in 0..64u8 {
                for t in 0..64u8 {
                    for p in promos.iter() {
                        let ans = b.legal(mk_move(f, t, p));
                        let exp = es.contains(&(f, t, p.to_string()));
                        if ans && !exp {
                            wrong_true.push(json!([f, t, p]));
                        } else if !ans && exp {
                            wrong_false.push(json!([f, t, p]));
                        }
                    }
                }
            }
            rep.count("legality_queries", 20480);
            if !wrong_true.is_empty() {
                rep.violation("C01", "legal_query_true_for_illegal", json!({"fen": fen, "moves": wrong_true}));
            }
            if !wrong_false.is_empty() {
                rep.violation("C01", "legal_query_false_for_legal", json!({"fen": fen, "moves": wrong_false}));
            }
        } else {
            let mut seed = cfg.seed ^ idx.wrapping_mul(0x9E3779B97F4A7C15);
            let mut probes: Vec<(u8, u8, String)> = vec![];
            for m in spec.iter() {
                for p in promos.iter() {
                    probes.push((m.0, m.1, p.to_string()));
                }
            }
            for _ in 0..256 {
                let r = rng_next(&mut seed);
                probes.push(((r & 63) as u8, ((r >> 6) & 63) as u8, promos[((r >> 12) % 5) as usize].to_string()));
            }
            rep.count("legality_queries", probes.len() as u64);
            for (f, t, p) in probes {
                let ans = b.legal(mk_move(f, t, &p));
                let exp = es.contains(&(f, t, p.clone()));
                if ans != exp {
                    rep.violation(
                        "C01",
                        if ans { "legal_query_true_for_illegal" } else { "legal_query_false_for_legal" },
                        json!({"fen": fen, "moves": [[f, t, p]]}),
                    );
                }
            }
        }
    }

    // move VALUES outside the 20480 triples (a "promotion" to pawn or king): never legal.  Beyond C01's wording: a NOTE.
    if has(cfg, "C01") {
        for m in spec.iter() {
            for p in ["p", "k"].iter() {
                if b.legal(mk_move(m.0, m.1, p)) {
                    rep.violation("SPEC", "legal_query_true_for_a_promotion_to_pawn_or_king", json!({"fen": fen, "move": [m.0, m.1, p]}));
                }
            }
        }
    }

    // ---------------- C03 ----------------
    if has(cfg, "C03") {
        let pb = proj(b);
        if pb != *sp {
            rep.violation("C03", "per_square_view_differs_from_position", json!({"fen": fen, "observed": pb.describe()}));
        }
        let bbv = proj_bb(b);
        if bbv != sp.sq {
            rep.violation("C03", "bitboard_view_differs", json!({"fen": fen, "bitboards": String::from_utf8_lossy(&bbv).to_string()}));
        }
        let mut uni = EMPTY;
        for p in ALL_PIECES.iter() {
            uni |= *b.pieces(*p);
        }
        let cc = *b.color_combined(Color::White) | *b.color_combined(Color::Black);
        let occ: Vec<u8> = (0..64u8).filter(|i| sp.sq[*i as usize] != b'.').collect();
        if bb_squares(*b.combined()) != occ || bb_squares(uni) != occ || bb_squares(cc) != occ || (*b.color_combined(Color::White) & *b.color_combined(Color::Black)) != EMPTY {
            rep.violation("C03", "combined_occupancy_inconsistent", json!({"fen": fen}));
        }
        for (c, l) in [(Color::White, b'K'), (Color::Black, b'k')].iter() {
            let ks = b.king_square(*c).to_index();
            if sp.sq[ks] != *l {
                rep.violation("C03", "king_square_wrong", json!({"fen": fen, "king_square": ks}));
            }
        }
        let got_chk = bb_squares(*b.checkers());
        if got_chk != chk {
            rep.violation("C03", "checkers_wrong", json!({"fen": fen, "expected": chk, "observed": got_chk, "incremental": it.incremental}));
        }
        let got_pin = bb_squares(*b.pinned() & own);
        if got_pin != pin {
            rep.violation("C03", "pinned_wrong", json!({"fen": fen, "expected": pin, "observed": got_pin, "incremental": it.incremental}));
        }
        match Board::from_str(fen) {
            Ok(fresh) => {
                if fresh != *b {
                    rep.violation(
                        "C03",
                        "incremental_differs_from_fresh",
                        json!({"fen": fen, "incremental": it.incremental,
                               "checkers": [bb_squares(*b.checkers()), bb_squares(*fresh.checkers())],
                               "pinned": [bb_squares(*b.pinned()), bb_squares(*fresh.pinned())],
                               "hash": [b.get_hash().to_string(), fresh.get_hash().to_string()],
                               "ep": [format!("{:?}", b.en_passant()), format!("{:?}", fresh.en_passant())]}),
                    );
                }
            }
            Err(_) => {}
        }
    }

    // ---------------- C04 ----------------
    if has(cfg, "C04") {
        let got = match b.status() {
            BoardStatus::Ongoing => "Ongoing",
            BoardStatus::Checkmate => "Checkmate",
            BoardStatus::Stalemate => "Stalemate",
        };
        if got != st {
            rep.violation("C04", "status_wrong", json!({"fen": fen, "expected": st, "observed": got}));
        }
    }

    // ---------------- C05 ----------------
    if has(cfg, "C05") {
        if !b.is_sane() {
            rep.violation("C05", "reached_position_not_sane", json!({"fen": fen, "incremental": it.incremental}));
        }
        let pb = proj(b);
        if pb != *sp {
            rep.violation("C05", "left_the_specified_state_space", json!({"fen": fen, "observed": pb.describe()}));
        }
    }

    // C05 is about the moves the library GENERATES: apply every one of them (also those the spec does not list)
    if has(cfg, "C05") {
        let men = [b.color_combined(Color::White).popcnt(), b.color_combined(Color::Black).popcnt()];
        let pawns = [
            (b.pieces(Piece::Pawn) & b.color_combined(Color::White)).popcnt(),
            (b.pieces(Piece::Pawn) & b.color_combined(Color::Black)).popcnt(),
        ];
        for m in movegen_list(b) {
            if b.piece_on(m.get_source()).is_none() {
                rep.violation("C05", "generated_move_from_empty_square", json!({"fen": fen, "move": mv_json(m)}));
                continue;
            }
            let r = std::panic::catch_unwind(|| b.make_move_new(m));
            let n = match r {
                Ok(n) => n,
                Err(_) => {
                    rep.violation("C05", "panic_applying_generated_move", json!({"fen": fen, "move": mv_json(m)}));
                    continue;
                }
            };
            rep.count("generated_moves_applied", 1);
            let pn = proj(&n);
            let kw = pn.sq.iter().filter(|c| **c == b'K').count();
            let kb = pn.sq.iter().filter(|c| **c == b'k').count();
            let back = (0..8).any(|i| pn.sq[i] == b'P' || pn.sq[i] == b'p' || pn.sq[56 + i] == b'P' || pn.sq[56 + i] == b'p');
            let mn = [n.color_combined(Color::White).popcnt(), n.color_combined(Color::Black).popcnt()];
            let pw = [
                (n.pieces(Piece::Pawn) & n.color_combined(Color::White)).popcnt(),
                (n.pieces(Piece::Pawn) & n.color_combined(Color::Black)).popcnt(),
            ];
            let what = if kw != 1 || kb != 1 {
                Some("king_count")
            } else if back {
                Some("pawn_on_back_rank")
            } else if !n.is_sane() {
                Some("not_sane")
            } else if rights_mask(&n) & !sp.cr != 0 {
                Some("castling_right_came_back")
            } else if mn[0] > men[0] || mn[1] > men[1] || pw[0] > pawns[0] || pw[1] > pawns[1] {
                Some("material_grew")
            } else {
                None
            };
            if let Some(w) = what {
                rep.violation("C05", &format!("generated_move_leads_to_{}", w), json!({"fen": fen, "move": mv_json(m), "after": pn.describe()}));
            }
        }
    }

    // ---------------- C06 ----------------
    if has(cfg, "C06") {
        let allowed: Vec<String> = rec["fa"].as_array().unwrap().iter().map(|x| x.as_str().unwrap().to_string()).collect();
        let std = rec["std"].as_str().unwrap();
        let bb_of: BoardBuilder = b.into();
        for (who, text) in [("board", format!("{}", b)), ("builder", format!("{}", bb_of))].iter() {
            let fields: Vec<&str> = text.split(' ').collect();
            let wellformed = fields.len() == 6 && fields[4].parse::<u32>().is_ok() && fields[5].parse::<u32>().map(|x| x >= 1).unwrap_or(false);
            if !wellformed {
                rep.violation("C06", "rendering_not_six_fields", json!({"fen": fen, "who": who, "rendered": text}));
                continue;
            }
            let f4 = fen4(text);
            if !allowed.contains(&f4) {
                let exp4: Vec<&str> = allowed[0].split(' ').collect();
                let kind = if fields[0] != exp4[0] {
                    "rendered_placement_wrong"
                } else if fields[1] != exp4[1] {
                    "rendered_side_wrong"
                } else if fields[2] != exp4[2] {
                    "rendered_castling_wrong"
                } else {
                    "rendered_en_passant_field_wrong"
                };
                rep.violation("C06", kind, json!({"fen": fen, "who": who, "rendered": text, "allowed": allowed, "last_double_push_passed": rec["ld"]}));
            }
            match Board::from_str(text) {
                Ok(back) => {
                    if back != *b {
                        rep.violation("C06", "own_rendering_does_not_round_trip", json!({"fen": fen, "who": who, "rendered": text, "reparsed": proj(&back).describe()}));
                    }
                }
                Err(_) => rep.violation("C06", "own_rendering_rejected", json!({"fen": fen, "who": who, "rendered": text})),
            }
            match BoardBuilder::from_str(text) {
                Ok(bb2) => {
                    let t2 = format!("{}", bb2);
                    if t2 != *text {
                        rep.violation("C06", "builder_reparse_renders_differently", json!({"fen": fen, "who": who, "rendered": text, "again": t2}));
                    }
                }
                Err(_) => rep.violation("C06", "builder_rejects_own_rendering", json!({"fen": fen, "who": who, "rendered": text})),
            }
        }
        // the independent standard writer's text (en-passant square after every double push)
        if rec["ld"].as_i64().unwrap() >= 0 {
            rep.count("states_after_double_push", 1);
        }
        match Board::from_str(std) {
            Ok(x) => {
                // the library may or may not keep an en-passant square nobody can use: compare modulo that don't-care
                let px = proj(&x);
                let mut want = *sp;
                if px.ep != sp.ep {
                    let alt: Vec<i64> = allowed.iter().map(|a| pos_from_spec_fen(&format!("{} 0 1", a)).ep as i64).collect();
                    if alt.contains(&(px.ep as i64)) {
                        want.ep = px.ep;
                    }
                }
                if px != want {
                    rep.violation("C06", "standard_fen_misread", json!({"std": std, "expected": sp.describe(), "observed": px.describe()}));
                } else if px == *sp && x != *b {
                    rep.violation("C06", "standard_fen_parse_not_equal_to_reached_board", json!({"std": std, "fen": fen}));
                }
                match BoardBuilder::from_str(std).map(|bb| Board::try_from(&bb)) {
                    Ok(Ok(y)) => {
                        if y != x {
                            rep.violation("C06", "builder_path_differs_from_direct_parse", json!({"std": std}));
                        }
                    }
                    _ => rep.violation("C06", "builder_path_rejects_standard_fen", json!({"std": std})),
                }
            }
            Err(e) => rep.violation("C06", "standard_fen_rejected", json!({"std": std, "error": format!("{:?}", e)})),
        }
    }

    // ---------------- C07 (valid positions are accepted, through the builder too) ----------------
    if has(cfg, "C07") || has(cfg, "C06") {
        let bb = pos_to_builder(sp);
        match Board::try_from(&bb) {
            Ok(x) => {
                if x != *b && has(cfg, "C06") {
                    rep.violation("C06", "builder_construction_differs", json!({"fen": fen, "observed": proj(&x).describe()}));
                }
            }
            Err(_) => {
                if has(cfg, "C07") {
                    rep.violation("C07", "valid_position_rejected_by_builder", json!({"fen": fen}));
                }
            }
        }
    }

    // ---------------- C08 (per state part) ----------------
    if has(cfg, "C08") {
        if let Ok(fresh) = Board::from_str(fen) {
            if fresh.get_hash() != b.get_hash() {
                rep.violation("C08", "hash_differs_from_fen_construction", json!({"fen": fen, "incremental": it.incremental,
                    "hash": [b.get_hash().to_string(), fresh.get_hash().to_string()]}));
            }
            if fresh == *b && std_hash_bytes(&fresh) != std_hash_bytes(b) {
                rep.violation("C08", "std_hash_inconsistent_with_eq", json!({"fen": fen}));
            }
        }
        if let Ok(x) = Board::try_from(&pos_to_builder(sp)) {
            if x.get_hash() != b.get_hash() {
                rep.violation("C08", "hash_differs_from_builder_construction", json!({"fen": fen}));
            }
        }
    }

    // ---------------- C08: Hash must be consistent with == also across DIFFERENT positions; builder edit paths ----------------
    if has(cfg, "C08") {
        let mut variants: Vec<Pos> = vec![];
        if sp.ep >= 0 {
            let mut v = *sp;
            v.ep = -1;
            variants.push(v);
        }
        if sp.cr != 0 {
            let mut v = *sp;
            v.cr = 0;
            variants.push(v);
        }
        let mut v = *sp;
        v.stm = if sp.stm == b'w' { b'b' } else { b'w' };
        v.ep = -1;
        variants.push(v);
        for v in variants.iter() {
            if let Ok(x) = Board::try_from(&pos_to_builder(v)) {
                if x == *b && std_hash_bytes(&x) != std_hash_bytes(b) {
                    rep.violation("C08", "boards_equal_under_eq_but_std_hash_differs", json!({"fen": fen, "other": v.describe()}));
                }
            }
        }
        // Board -> BoardBuilder -> edit one square through IndexMut -> Board: same hash as the edited position built afresh
        let mut seed = cfg.seed ^ idx.wrapping_mul(0xA24BAED4963EE407);
        let i = (rng_next(&mut seed) % 64) as usize;
        if sp.sq[i] != b'K' && sp.sq[i] != b'k' {
            let newman: u8 = if sp.sq[i] == b'.' { b'N' } else { b'.' };
            let mut edited = *sp;
            edited.sq[i] = newman;
            edited.ep = -1;
            let mut bb: BoardBuilder = b.into();
            bb.en_passant(None);
            bb[Square::new(i as u8)] = letter_piece(newman);
            match (Board::try_from(&bb), Board::try_from(&pos_to_builder(&edited))) {
                (Ok(x), Ok(y)) => {
                    rep.count("builder_index_edits_compared", 1);
                    if x.get_hash() != y.get_hash() || x != y {
                        rep.violation("C08", "hash_after_builder_index_edit_differs_from_fresh", json!({"fen": fen, "edited": edited.describe(),
                            "hash": [x.get_hash().to_string(), y.get_hash().to_string()]}));
                    }
                }
                (Ok(_), Err(_)) | (Err(_), Ok(_)) => {
                    rep.violation("C08", "builder_index_edit_acceptance_differs", json!({"fen": fen, "edited": edited.describe()}));
                }
                _ => {}
            }
        }
    }
    if has(cfg, "C09") {
        if let Some(n) = b.null_move() {
            if n.get_hash() == b.get_hash() {
                rep.violation("C09", "null_move_keeps_hash", json!({"fen": fen}));
            }
        }
    }

    // ---------------- C09 (single-component siblings) ----------------
    if has(cfg, "C09") {
        let mut seed = cfg.seed ^ idx.wrapping_mul(0xD6E8FEB86659FD93);
        if rng_next(&mut seed) % 4 == 0 || sp.ep >= 0 {
            siblings(sp, b, fen, rep);
        }
    }

    // ---------------- C18 ----------------
    if has(cfg, "C18") {
        let nul = rec["nul"].as_bool().unwrap();
        match (b.null_move(), nul) {
            (None, false) => rep.count("null_moves_refused_in_check", 1),
            (Some(_), false) => rep.violation("C18", "null_move_allowed_in_check", json!({"fen": fen})),
            (None, true) => rep.violation("C18", "null_move_refused_out_of_check", json!({"fen": fen})),
            (Some(n), true) => {
                rep.count("null_moves_made", 1);
                let mut want = *sp;
                want.stm = if sp.stm == b'w' { b'b' } else { b'w' };
                want.ep = -1;
                let pn = proj(&n);
                if pn != want {
                    rep.violation("C18", "null_move_result_wrong", json!({"fen": fen, "expected": want.describe(), "observed": pn.describe()}));
                }
                let nfen = format!("{} 0 1", want.describe());
                match Board::from_str(&nfen) {
                    Ok(fresh) => {
                        if fresh != n {
                            rep.violation("C18", "null_move_result_differs_from_fresh", json!({"fen": fen, "null_fen": nfen,
                                "checkers": [bb_squares(*n.checkers()), bb_squares(*fresh.checkers())],
                                "pinned": [bb_squares(*n.pinned()), bb_squares(*fresh.pinned())],
                                "hash": [n.get_hash().to_string(), fresh.get_hash().to_string()]}));
                        }
                    }
                    Err(_) => {
                        // the passed position is not acceptable to the library (cannot happen for
                        // valid positions: the side that passed is not in check)
                        rep.violation("C18", "null_move_result_not_constructible", json!({"fen": fen, "null_fen": nfen}));
                    }
                }
                if *b != it.board {
                    rep.violation("C18", "null_move_modified_source", json!({"fen": fen}));
                }
            }
        }
    }

    // ---------------- C17 ----------------
    if has(cfg, "C17") {
        symmetric(cfg, "mirror", &mirror_pos(sp), b, rec, &spec, &chk, &pin, st, mirror_sq, mirror_pos, rep);
        if sp.cr == 0 {
            rep.count("states_flipped_left_right", 1);
            symmetric(cfg, "flip", &flip_pos(sp), b, rec, &spec, &chk, &pin, st, flip_sq, flip_pos, rep);
        }
    }
}

#[allow(clippy::too_many_arguments)]
fn symmetric(
    _cfg: &Cfg,
    which: &str,
    image: &Pos,
    b: &Board,
    rec: &Value,
    spec: &Vec<(u8, u8, String)>,
    chk: &Vec<u8>,
    pin: &Vec<u8>,
    st: &str,
    fsq: fn(u8) -> u8,
    fpos: fn(&Pos) -> Pos,
    rep: &mut Report,
) {
    let fen = rec["fen"].as_str().unwrap();
    // the image is built independently through the builder; every other one names the en-passant file before the side to move
    let ep_first = fen.len() % 2 == 1;
    let ib = match Board::try_from(&(if ep_first { pos_to_builder_ep_first(image) } else { pos_to_builder(image) })) {
        Ok(x) => x,
        Err(_) => {
            rep.violation("C17", &format!("{}_image_rejected", which), json!({"fen": fen, "image": image.describe()}));
            return;
        }
    };
    let imoves: Vec<(u8, u8, String)> = spec.iter().map(|m| (fsq(m.0), fsq(m.1), m.2.clone())).collect();
    let listed = movegen_list(&ib);
    compare_moves("C17", &format!("{}_", which), &image.describe(), &listed, &imoves, rep);
    let mut ichk: Vec<u8> = chk.iter().map(|s| fsq(*s)).collect();
    ichk.sort();
    let mut ipin: Vec<u8> = pin.iter().map(|s| fsq(*s)).collect();
    ipin.sort();
    if bb_squares(*ib.checkers()) != ichk {
        rep.violation("C17", &format!("{}_checkers", which), json!({"fen": fen, "image": image.describe(), "expected": ichk, "observed": bb_squares(*ib.checkers())}));
    }
    let own = *ib.color_combined(ib.side_to_move());
    if bb_squares(*ib.pinned() & own) != ipin {
        rep.violation("C17", &format!("{}_pinned", which), json!({"fen": fen, "image": image.describe(), "expected": ipin, "observed": bb_squares(*ib.pinned() & own)}));
    }
    let got = match ib.status() {
        BoardStatus::Ongoing => "Ongoing",
        BoardStatus::Checkmate => "Checkmate",
        BoardStatus::Stalemate => "Stalemate",
    };
    if got != st {
        rep.violation("C17", &format!("{}_status", which), json!({"fen": fen, "image": image.describe(), "expected": st, "observed": got}));
    }
    for m in spec.iter() {
        let mv = mk_move(m.0, m.1, &m.2);
        let imv = mk_move(fsq(m.0), fsq(m.1), &m.2);
        if b.piece_on(mv.get_source()).is_none() || ib.piece_on(imv.get_source()).is_none() {
            continue;
        }
        let r = std::panic::catch_unwind(|| (b.make_move_new(mv), ib.make_move_new(imv)));
        match r {
            Ok((n, inx)) => {
                let a = fpos(&proj(&n));
                let c = proj(&inx);
                if a != c {
                    rep.violation("C17", &format!("{}_successor", which), json!({"fen": fen, "move": [m.0, m.1, m.2], "image_of_successor": a.describe(), "successor_of_image": c.describe()}));
                }
                let mut x: Vec<u8> = bb_squares(*n.checkers()).iter().map(|s| fsq(*s)).collect();
                x.sort();
                if x != bb_squares(*inx.checkers()) {
                    rep.violation("C17", &format!("{}_successor_checkers", which), json!({"fen": fen, "move": [m.0, m.1, m.2]}));
                }
                let mut y: Vec<u8> = bb_squares(*n.pinned() & *n.color_combined(n.side_to_move())).iter().map(|s| fsq(*s)).collect();
                y.sort();
                let iy = bb_squares(*inx.pinned() & *inx.color_combined(inx.side_to_move()));
                if y != iy {
                    rep.violation("C17", &format!("{}_successor_pinned", which), json!({"fen": fen, "move": [m.0, m.1, m.2], "image_of_pinned": y, "pinned_of_image": iy}));
                }
            }
            Err(_) => rep.violation("C17", &format!("{}_panic", which), json!({"fen": fen, "move": [m.0, m.1, m.2]})),
        }
    }
    rep.count("symmetric_images_checked", 1);
}

/// C09: positions that differ from `sp` in exactly one component must hash differently.
fn siblings(sp: &Pos, b: &Board, fen: &str, rep: &mut Report) {
    let h = b.get_hash();
    let mut try_variant = |v: Pos, what: &str, rep: &mut Report| {
        if v == *sp {
            return;
        }
        if let Ok(x) = Board::try_from(&pos_to_builder(&v)) {
            let pv = proj(&x);
            if pv == *sp {
                return; // the library normalised the difference away (en-passant don't-care)
            }
            rep.count("sibling_pairs_compared", 1);
            if x.get_hash() == h {
                rep.violation("C09", &format!("sibling_same_hash_{}", what), json!({"fen": fen, "sibling": pv.describe(), "hash": h.to_string()}));
            }
        }
    };
    // side to move
    let mut v = *sp;
    v.stm = if sp.stm == b'w' { b'b' } else { b'w' };
    v.ep = -1;
    let mut base = *sp;
    base.ep = -1;
    if base == *sp {
        try_variant(v, "side_to_move", rep);
    }
    // each castling right
    for bit in [1u8, 2, 4, 8].iter() {
        if sp.cr & bit != 0 {
            let mut v = *sp;
            v.cr &= !bit;
            try_variant(v, "castling_right", rep);
        }
    }
    // en-passant state: drop it, or move it to another plausible file
    if sp.ep >= 0 {
        let mut v = *sp;
        v.ep = -1;
        try_variant(v, "en_passant_dropped", rep);
        for f in 0..8i8 {
            let mut v = *sp;
            v.ep = (sp.ep & !7) | f;
            try_variant(v, "en_passant_file", rep);
        }
    }
    // one man removed / moved / recoloured / retyped
    for i in 0..64usize {
        let c = sp.sq[i];
        if c == b'.' {
            continue;
        }
        if c != b'K' && c != b'k' {
            let mut v = *sp;
            v.sq[i] = b'.';
            try_variant(v, "man_removed", rep);
            let mut v = *sp;
            v.sq[i] = swap_case(c);
            try_variant(v, "man_recoloured", rep);
            for alt in [b'N', b'B', b'R', b'Q'].iter() {
                let a = if c.is_ascii_uppercase() { *alt } else { alt.to_ascii_lowercase() };
                if a != c {
                    let mut v = *sp;
                    v.sq[i] = a;
                    try_variant(v, "man_retyped", rep);
                }
            }
        }
        for j in [i ^ 1, i ^ 8, (i + 17) % 64].iter() {
            if sp.sq[*j] == b'.' {
                let mut v = *sp;
                v.sq[*j] = c;
                v.sq[i] = b'.';
                try_variant(v, "man_moved", rep);
            }
        }
    }
}

/// C09: every single Zobrist component must separate positions.  Two men fixed (the kings), one man X on every
/// other square, every kind and colour: all hashes must be pairwise distinct (their differences are exactly the
/// piece keys); the same for the 16 castling-right combinations, both sides to move, and every en-passant file.
fn key_table_probe(rep: &mut Report) {
    use std::collections::HashMap;
    let mut seen: HashMap<u64, String> = HashMap::new();
    let mut note = |b: &Board, what: String, rep: &mut Report, seen: &mut HashMap<u64, String>| {
        rep.count("key_probe_positions", 1);
        if let Some(prev) = seen.get(&b.get_hash()) {
            if *prev != what {
                rep.violation("C09", "single_component_keys_collide", json!({"a": prev, "b": what, "hash": b.get_hash().to_string()}));
            }
        } else {
            seen.insert(b.get_hash(), what);
        }
    };
    for (wk, bk) in [(0usize, 63usize), (7, 56)].iter() {
        seen.clear();
        for l in b"PNBRQpnbrq".iter() {
            for s in 0..64usize {
                if s == *wk || s == *bk {
                    continue;
                }
                for stm in [b'w', b'b'].iter() {
                    let mut p = Pos { sq: [b'.'; 64], stm: *stm, cr: 0, ep: -1 };
                    p.sq[*wk] = b'K';
                    p.sq[*bk] = b'k';
                    p.sq[s] = *l;
                    if let Ok(b) = Board::try_from(&pos_to_builder(&p)) {
                        note(&b, p.describe(), rep, &mut seen);
                    }
                }
            }
        }
    }
    // castling rights and side to move
    seen.clear();
    for cr in 0..16u8 {
        for stm in [b'w', b'b'].iter() {
            let mut p = Pos { sq: [b'.'; 64], stm: *stm, cr, ep: -1 };
            p.sq[4] = b'K';
            p.sq[0] = b'R';
            p.sq[7] = b'R';
            p.sq[60] = b'k';
            p.sq[56] = b'r';
            p.sq[63] = b'r';
            if let Ok(b) = Board::try_from(&pos_to_builder(&p)) {
                note(&b, p.describe(), rep, &mut seen);
            }
        }
    }
    // en-passant files, both colours: pusher on file f, capturers on both neighbours
    for white_pushed in [true, false].iter() {
        seen.clear();
        for f in -1..8i8 {
            let mut p = Pos { sq: [b'.'; 64], stm: if *white_pushed { b'b' } else { b'w' }, cr: 0, ep: -1 };
            p.sq[4] = b'K';
            p.sq[60] = b'k';
            let (rank, me, them, eprank) = if *white_pushed { (3usize, b'P', b'p', 2i8) } else { (4usize, b'p', b'P', 5i8) };
            for g in 0..8usize {
                p.sq[rank * 8 + g] = if g % 2 == 0 { me } else { them };
            }
            // alternate so that every file has a pusher candidate with an enemy neighbour: use two layouts
            for layout in 0..2 {
                let mut q = p;
                for g in 0..8usize {
                    q.sq[rank * 8 + g] = if (g + layout) % 2 == 0 { me } else { them };
                }
                if f >= 0 {
                    if q.sq[rank * 8 + f as usize] != me {
                        continue;
                    }
                    q.ep = eprank * 8 + f;
                }
                if let Ok(b) = Board::try_from(&pos_to_builder(&q)) {
                    note(&b, format!("layout {} {}", layout, q.describe()), rep, &mut seen);
                }
            }
        }
    }
    // cross product: en-passant file x castling rights (x placement layout) on boards where every pusher has a taker
    for white_pushed in [true, false].iter() {
        seen.clear();
        for layout in 0..2usize {
            for cr in 0..16u8 {
                for f in -1..8i8 {
                    let mut q = Pos { sq: [b'.'; 64], stm: if *white_pushed { b'b' } else { b'w' }, cr, ep: -1 };
                    q.sq[4] = b'K';
                    q.sq[0] = b'R';
                    q.sq[7] = b'R';
                    q.sq[60] = b'k';
                    q.sq[56] = b'r';
                    q.sq[63] = b'r';
                    let (rank, me, them, eprank) = if *white_pushed { (3usize, b'P', b'p', 2i8) } else { (4usize, b'p', b'P', 5i8) };
                    for g in 0..8usize {
                        q.sq[rank * 8 + g] = if (g + layout) % 2 == 0 { me } else { them };
                    }
                    if f >= 0 {
                        if q.sq[rank * 8 + f as usize] != me {
                            continue;
                        }
                        q.ep = eprank * 8 + f;
                    }
                    if let Ok(b) = Board::try_from(&pos_to_builder(&q)) {
                        note(&b, q.describe(), rep, &mut seen);
                    }
                }
            }
        }
    }
}

fn main() {
    let args: Vec<String> = std::env::args().collect();
    let mut cfg = Cfg { props: HashSet::new(), sweep: "sel".into(), seed: 1, threads: 16, out: "".into(), mapcap: 8_000_000 };
    let mut i = 1;
    while i < args.len() {
        match args[i].as_str() {
            "--props" => {
                cfg.props = args[i + 1].split(',').map(|s| s.to_string()).collect();
                i += 1;
            }
            "--sweep" => {
                cfg.sweep = args[i + 1].clone();
                i += 1;
            }
            "--seed" => {
                cfg.seed = args[i + 1].parse().unwrap();
                i += 1;
            }
            "--threads" => {
                cfg.threads = args[i + 1].parse().unwrap();
                i += 1;
            }
            "--out" => {
                cfg.out = args[i + 1].clone();
                i += 1;
            }
            "--mapcap" => {
                cfg.mapcap = args[i + 1].parse().unwrap();
                i += 1;
            }
            x => {
                eprintln!("unknown arg {}", x);
                std::process::exit(2);
            }
        }
        i += 1;
    }
    std::panic::set_hook(Box::new(|_| {}));
    let mut rep_init: Option<Report> = None;
    let dirty = Board::from_str("r3k2r/p1ppqpb1/bn2pnp1/3PN3/1p2P3/2N2Q1p/PPPBBPPP/R3K2R b KQkq - 0 1").unwrap();
    if has(&cfg, "C09") {
        let mut r0 = Report::new();
        key_table_probe(&mut r0);
        rep_init = Some(r0);
    }
    let mut map: HashMap<[u8; 67], Board> = HashMap::new();
    let mut alts: HashMap<[u8; 67], Vec<Board>> = HashMap::new();
    let mut built: HashSet<[u8; 67]> = HashSet::new();
    let mut hmap: HashMap<u64, [u8; 67]> = HashMap::new();
    let mut rep = Report::new();
    if let Some(r0) = rep_init.take() {
        rep.merge(r0);
    }
    let stdin = io::stdin();
    let mut batch: Vec<Item> = vec![];
    let mut idx: u64 = 0;
    let mut tlc_lines: Vec<String> = vec![];
    let flush = |batch: &mut Vec<Item>, idx0: u64, rep: &mut Report, cfg: &Cfg| {
        let n = batch.len();
        if n == 0 {
            return;
        }
        let chunk = (n + cfg.threads - 1) / cfg.threads;
        let reports: Vec<Report> = std::thread::scope(|s| {
            let mut hs = vec![];
            for (ci, items) in batch.chunks(chunk).enumerate() {
                let base = idx0 + (ci * chunk) as u64;
                hs.push(s.spawn(move || {
                    let mut r = Report::new();
                    for (k, it) in items.iter().enumerate() {
                        let res = std::panic::catch_unwind(std::panic::AssertUnwindSafe(|| {
                            let mut rr = Report::new();
                            phase2(cfg, it, base + k as u64, &mut rr);
                            rr
                        }));
                        match res {
                            Ok(rr) => r.merge(rr),
                            Err(_) => {
                                let fen = it.rec["fen"].as_str().unwrap();
                                for p in ["C01", "C07"].iter() {
                                    if has(cfg, p) {
                                        r.violation(p, "panic_on_valid_position", json!({"fen": fen}));
                                    }
                                }
                            }
                        }
                    }
                    r
                }));
            }
            hs.into_iter().map(|h| h.join().unwrap()).collect()
        });
        for r in reports {
            rep.merge(r);
        }
        batch.clear();
    };
    let mut batch_start = 0u64;
    for line in stdin.lock().lines() {
        let line = match line {
            Ok(l) => l,
            Err(_) => continue,
        };
        if !line.starts_with("\"REC ") {
            if !line.starts_with("Semantic") && !line.starts_with("Parsing") && !line.starts_with("Linting") && tlc_lines.len() < 400 {
                tlc_lines.push(line);
            }
            continue;
        }
        let rec = match parse_tlc_line(&line, "REC") {
            Some(r) => r,
            None => {
                eprintln!("TOOL-ERROR: unparsable record line");
                std::process::exit(2);
            }
        };
        if map.len() >= cfg.mapcap {
            map.clear();
            alts.clear();
            rep.count("state_map_cleared", 1);
        }
        if hmap.len() >= 4 * cfg.mapcap {
            hmap.clear();
        }
        for it in phase1(&cfg, rec, &mut map, &mut alts, &mut built, &mut hmap, &mut rep, &dirty) {
            batch.push(it);
        }
        idx += 1;
        if batch.len() >= 4096 {
            flush(&mut batch, batch_start, &mut rep, &cfg);
            batch_start = idx;
        }
    }
    flush(&mut batch, batch_start, &mut rep, &cfg);
    rep.count("distinct_states_in_map", map.len() as u64);
    rep.count("distinct_hashes", hmap.len() as u64);
    let mut out = rep.to_json();
    out["tlc_output"] = json!(tlc_lines);
    let text = serde_json::to_string_pretty(&out).unwrap();
    if cfg.out.is_empty() {
        println!("{}", text);
    } else {
        std::fs::write(&cfg.out, text).unwrap();
    }
}
