//! Direction A for the game protocol: every state TLC printed from MCGame
//! (= one history: start position + log of accepted actions, plus the menu
//! of what each further action must return) is rebuilt in the real `Game`
//! and probed.
//!
//! stdin: TLC output with `"GREC {json}"` lines;  --out report.json

use chess::*;
use chess_verif_harness::*;
use serde_json::{json, Value};
use std::str::FromStr;

fn color_of(s: &str) -> Color {
    if s == "w" {
        Color::White
    } else {
        Color::Black
    }
}

fn action_json(a: &Action) -> Value {
    match a {
        Action::MakeMove(m) => {
            let (f, t, p) = mv_triple(*m);
            json!(["move", f, t, p.to_string()])
        }
        Action::OfferDraw(c) => json!(["offer", if *c == Color::White { "w" } else { "b" }]),
        Action::AcceptDraw => json!(["accept"]),
        Action::DeclareDraw => json!(["declare"]),
        Action::Resign(c) => json!(["resign", if *c == Color::White { "w" } else { "b" }]),
    }
}

fn result_name(r: Option<GameResult>) -> &'static str {
    match r {
        None => "None",
        Some(GameResult::WhiteCheckmates) => "WhiteCheckmates",
        Some(GameResult::WhiteResigns) => "WhiteResigns",
        Some(GameResult::BlackCheckmates) => "BlackCheckmates",
        Some(GameResult::BlackResigns) => "BlackResigns",
        Some(GameResult::Stalemate) => "Stalemate",
        Some(GameResult::DrawAccepted) => "DrawAccepted",
        Some(GameResult::DrawDeclared) => "DrawDeclared",
    }
}

fn apply(g: &mut Game, a: &Value) -> bool {
    match a[0].as_str().unwrap() {
        "move" => g.make_move(mk_move(a[1].as_i64().unwrap() as u8, a[2].as_i64().unwrap() as u8, a[3].as_str().unwrap())),
        "offer" => g.offer_draw(color_of(a[1].as_str().unwrap())),
        "resign" => g.resign(color_of(a[1].as_str().unwrap())),
        "accept" => g.accept_draw(),
        "declare" => g.declare_draw(),
        _ => false,
    }
}

fn snapshot(g: &Game) -> Value {
    json!({"result": result_name(g.result()), "n": g.actions().len(), "cur": proj(&g.current_position()).describe(),
           "stm": if g.side_to_move() == Color::White { "w" } else { "b" }})
}

fn main() {
    let args: Vec<String> = std::env::args().collect();
    let mut out = String::new();
    let mut i = 1;
    while i < args.len() {
        if args[i] == "--out" {
            out = args[i + 1].clone();
            i += 1;
        }
        i += 1;
    }
    std::panic::set_hook(Box::new(|_| {}));
    let mut rep = Report::new();
    let stdin = std::io::stdin();
    let mut line = String::new();
    use std::io::BufRead;
    let mut lock = stdin.lock();
    loop {
        line.clear();
        if lock.read_line(&mut line).unwrap_or(0) == 0 {
            break;
        }
        if !line.starts_with("\"GREC ") {
            continue;
        }
        let rec = match parse_tlc_line(&line, "GREC") {
            Some(r) => r,
            None => {
                eprintln!("TOOL-ERROR: unparsable GREC line");
                std::process::exit(2);
            }
        };
        if !rec["real"].as_bool().unwrap_or(true) {
            // ends in a declaration justified only by the scaled-down fifty-move limit of the model
            rep.count("histories_skipped_scaled_limit_only", 1);
            continue;
        }
        rep.count("histories", 1);
        let start = rec["start"].as_str().unwrap();
        let log = rec["log"].as_array().unwrap();
        let ctx = json!({"start": start, "log": log});
        let r = std::panic::catch_unwind(|| {
            let mut rr = Report::new();
            let board = Board::from_str(start).expect("spec root is valid");
            let mut g = Game::new_with_board(board);
            // 1. the accepted actions must be accepted, in order
            for (k, a) in log.iter().enumerate() {
                let ok = apply(&mut g, a);
                if !ok {
                    let p = if a[0] == "declare" { "C11" } else { "C10" };
                    rr.violation(p, "accepted_action_refused", json!({"start": start, "log": log, "step": k, "action": a}));
                    return rr;
                }
            }
            // 2. observable state = start advanced by exactly those actions
            let acts: Vec<Value> = g.actions().iter().map(action_json).collect();
            if Value::Array(acts.clone()) != Value::Array(log.clone()) {
                rr.violation("C10", "action_log_differs", json!({"ctx": ctx, "observed": acts}));
            }
            let want = pos_from_spec_fen(rec["cur"].as_str().unwrap());
            let want_alt = pos_from_spec_fen(rec["curalt"].as_str().unwrap());
            let got = proj(&g.current_position());
            if got != want && got != want_alt {
                rr.violation("C10", "current_position_differs", json!({"ctx": ctx, "expected": want.describe(), "observed": got.describe()}));
            }
            let stm = if g.side_to_move() == Color::White { "w" } else { "b" };
            if stm != rec["stm"].as_str().unwrap() {
                rr.violation("C10", "side_to_move_differs", json!({"ctx": ctx, "observed": stm}));
            }
            let res = result_name(g.result());
            let wantres = rec["result"].as_str().unwrap();
            if res != wantres {
                rr.violation("C10", "result_wrong", json!({"ctx": ctx, "expected": wantres, "observed": res}));
            }
            if wantres != "None" {
                rr.count("histories_with_result", 1);
            }
            let menu = &rec["menu"];
            let open = wantres == "None";
            // 3. draw claim query
            let can = g.can_declare_draw();
            let must = menu["claimmust"].as_bool().unwrap();
            let may = menu["claimmay"].as_bool().unwrap();
            if must {
                rr.count("claimable_states", 1);
            }
            if must && !can {
                rr.violation("C11", "claim_refused_but_due", json!({"ctx": ctx}));
            }
            if !may && can {
                rr.violation("C11", "claim_offered_but_not_due", json!({"ctx": ctx}));
            }
            // 4. every further action, tried on a clone
            let before = snapshot(&g);
            let mut probe = |name: &str, a: Value, expect: Option<bool>, prop: &str, rr: &mut Report| {
                let mut c = g.clone();
                let ret = apply(&mut c, &a);
                rr.count("probes", 1);
                if let Some(e) = expect {
                    if ret != e {
                        rr.violation(prop, &format!("{}_returned_{}", name, ret), json!({"ctx": ctx, "action": a, "expected": e}));
                        return;
                    }
                }
                let after = snapshot(&c);
                if ret {
                    let last = c.actions().last().map(action_json);
                    if c.actions().len() != g.actions().len() + 1 || last != Some(a.clone()) {
                        rr.violation(prop, &format!("{}_accepted_but_log_wrong", name), json!({"ctx": ctx, "action": a, "after": after}));
                    }
                } else if after != before {
                    rr.violation(prop, &format!("{}_refused_but_game_changed", name), json!({"ctx": ctx, "action": a, "before": before, "after": after}));
                }
            };
            for m in menu["legal"].as_array().unwrap() {
                probe("legal_move", json!(["move", m[0], m[1], m[2]]), Some(open), "C10", &mut rr);
            }
            for m in menu["illegal"].as_array().unwrap() {
                probe("illegal_move", json!(["move", m[0], m[1], m[2]]), Some(false), "C10", &mut rr);
            }
            for c in ["w", "b"].iter() {
                probe("offer_draw", json!(["offer", c]), Some(open), "C10", &mut rr);
                probe("resign", json!(["resign", c]), Some(open), "C10", &mut rr);
            }
            let ac = menu["acceptcond"].as_bool().unwrap();
            probe("accept_draw", json!(["accept"]), if ac { None } else { Some(false) }, "C10", &mut rr);
            probe("declare_draw", json!(["declare"]), if must { Some(true) } else if !may { Some(false) } else { None }, "C11", &mut rr);
            if must {
                let mut c = g.clone();
                c.declare_draw();
                if result_name(c.result()) != "DrawDeclared" {
                    rr.violation("C11", "declared_draw_not_the_result", json!({"ctx": ctx, "observed": result_name(c.result())}));
                }
            }
            rr
        });
        match r {
            Ok(rr) => rep.merge(rr),
            Err(_) => rep.violation("C10", "panic_in_game", json!({"start": start, "log": log})),
        }
        rep.sample("histories", json!({"start": start, "log": log, "result": rec["result"]}), 3);
    }
    let text = serde_json::to_string_pretty(&rep.to_json()).unwrap();
    if out.is_empty() {
        println!("{}", text);
    } else {
        std::fs::write(&out, text).unwrap();
    }
}
