//! Direction B (implementation -> spec): drive the real library and log one
//! NDJSON event per public call (arguments, result and the full projected
//! state) for TLC to validate against the trace specifications.
//!
//! record board --seed S --chunks N --events E --outdir DIR
//!
//! The driver never judges anything; it only logs.  A panic inside the
//! library is logged as an event of its own (`"panic": true`).

use chess::*;
use chess_verif_harness::*;
use serde_json::{json, Map, Value};
use std::hash::{Hash, Hasher};
use std::io::Write;
use std::convert::TryFrom;
use std::str::FromStr;

struct Rng(u64);
impl Rng {
    fn next(&mut self) -> u64 {
        self.0 = self.0.wrapping_add(0x9E3779B97F4A7C15);
        let mut z = self.0;
        z = (z ^ (z >> 30)).wrapping_mul(0xBF58476D1CE4E5B9);
        z = (z ^ (z >> 27)).wrapping_mul(0x94D049BB133111EB);
        z ^ (z >> 31)
    }
    fn below(&mut self, n: usize) -> usize {
        (self.next() % (n as u64)) as usize
    }
    fn chance(&mut self, num: u64, den: u64) -> bool {
        self.next() % den < num
    }
}

struct Capture(Vec<u8>);
impl Hasher for Capture {
    fn finish(&self) -> u64 {
        0
    }
    fn write(&mut self, bytes: &[u8]) {
        self.0.extend_from_slice(bytes);
    }
}
fn std_hash_hex(b: &Board) -> String {
    let mut c = Capture(vec![]);
    b.hash(&mut c);
    c.0.iter().map(|x| format!("{:02x}", x)).collect()
}

pub const START_FENS: [&str; 21] = [
    "rnbqkbnr/1ppppppp/8/pP6/8/8/P1PPPPPP/RNBQKBNR w KQkq a6 0 3",
    "rnbqkbnr/pppppppp/8/8/8/8/PPPPPPPP/RNBQKBNR w KQkq - 0 1",
    "r3k2r/p1ppqpb1/bn2pnp1/3PN3/1p2P3/2N2Q1p/PPPBBPPP/R3K2R w KQkq - 0 1",
    "8/2p5/3p4/KP5r/1R3p1k/8/4P1P1/8 w - - 0 1",
    "r3k2r/Pppp1ppp/1b3nbN/nP6/BBP1P3/q4N2/Pp1P2PP/R2Q1RK1 w kq - 0 1",
    "rnbq1k1r/pp1Pbppp/2p5/8/2B5/8/PPP1NnPP/RNBQK2R w KQ - 1 8",
    "r4rk1/1pp1qppp/p1np1n2/2b1p1B1/2B1P1b1/P1NP1N2/1PP1QPPP/R4RK1 w - - 0 10",
    "r3k2r/pppppppp/8/8/8/8/PPPPPPPP/R3K2R w KQkq - 0 1",
    "n1n5/PPPk4/8/8/8/8/4Kppp/5N1N b - - 0 1",
    "rnbqkb1r/pp1p1ppp/4pn2/2pP4/4P3/8/PPP2PPP/RNBQKBNR w KQkq c6 0 4",
    "4k3/8/8/2KPp2r/8/8/8/8 w - e6 0 1",
    "8/8/8/8/1kpP3R/8/8/4K3 b - d3 0 1",
    "r1bqkbnr/pppp1ppp/2n5/1B2p3/4P3/5N2/PPPP1PPP/RNBQK2R b KQkq - 3 3",
    "r3k2r/1b4bq/8/8/8/8/7B/R3K2R w KQkq - 0 1",
    "2r3k1/pp3ppp/2n1b3/q2pP3/3P4/P1PB1N2/5PPP/R2Q1RK1 b - - 0 1",
    "rnbqk2r/ppp2ppp/3b1n2/3pp3/2P5/1P2PN2/PB1P1PPP/RN1QKB1R b KQkq - 0 1",
    "r1b1k2r/ppppnppp/2n2q2/2b5/3NP3/2P1B3/PP3PPP/RN1QKB1R w KQkq - 0 1",
    "8/pppppppp/8/8/8/8/PPPPPPPP/4K2k w - - 0 1",
    "4k2r/6pp/8/3Pp3/8/8/PP4PP/R3K3 w Qk e6 0 1",
    "rnbqkbnr/1ppppppp/8/p7/1P6/8/P1PPPPPP/RNBQKBNR w KQkq a6 0 2",
    "3rk2r/8/8/pP6/8/8/8/R3K2R w KQk a6 0 1",
];

fn sq_string(p: &[u8; 64]) -> String {
    String::from_utf8_lossy(p).to_string()
}

fn cr_list(mask: u8) -> Vec<&'static str> {
    let mut v = vec![];
    for (bit, s) in [(1u8, "K"), (2, "Q"), (4, "k"), (8, "q")].iter() {
        if mask & bit != 0 {
            v.push(*s);
        }
    }
    v
}

/// Everything the public API lets one see of a Board, verbatim.
fn observe(b: &Board, m: &mut Map<String, Value>) {
    let p = proj(b);
    m.insert("sq".into(), json!(sq_string(&p.sq)));
    m.insert("bb".into(), json!(sq_string(&proj_bb(b))));
    m.insert("occ".into(), json!(bb_squares(*b.combined())));
    m.insert("wocc".into(), json!(bb_squares(*b.color_combined(Color::White))));
    m.insert("bocc".into(), json!(bb_squares(*b.color_combined(Color::Black))));
    m.insert("stm".into(), json!((p.stm as char).to_string()));
    m.insert("cr".into(), json!(cr_list(p.cr)));
    // the side-relative accessors of the same rights, and the colour-blind piece sets
    m.insert("mycr".into(), json!(b.my_castle_rights().to_index()));
    m.insert("theircr".into(), json!(b.their_castle_rights().to_index()));
    m.insert("kinds".into(), json!(ALL_PIECES.iter().map(|p| bb_squares(*b.pieces(*p))).collect::<Vec<_>>()));
    m.insert("ep_raw".into(), json!(b.en_passant().map(|s| s.to_index() as i64).unwrap_or(-1)));
    m.insert("chk".into(), json!(bb_squares(*b.checkers())));
    m.insert("pin".into(), json!(bb_squares(*b.pinned())));
    m.insert("wk".into(), json!(b.king_square(Color::White).to_index()));
    m.insert("bk".into(), json!(b.king_square(Color::Black).to_index()));
    m.insert("hash".into(), json!(b.get_hash().to_string()));
    m.insert("stdhash".into(), json!(std_hash_hex(b)));
    m.insert("sane".into(), json!(b.is_sane()));
    m.insert(
        "status".into(),
        json!(match b.status() {
            BoardStatus::Ongoing => "Ongoing",
            BoardStatus::Checkmate => "Checkmate",
            BoardStatus::Stalemate => "Stalemate",
        }),
    );
    let text = format!("{}", b);
    m.insert("fen".into(), json!(text));
    let bbuilder: BoardBuilder = b.into();
    m.insert("bfen".into(), json!(format!("{}", bbuilder)));
    match Board::from_str(&text) {
        Ok(fresh) => {
            m.insert("eq_fresh".into(), json!(fresh == *b));
            m.insert("hash_fresh".into(), json!(fresh.get_hash().to_string()));
            m.insert("stdhash_fresh".into(), json!(std_hash_hex(&fresh)));
            m.insert("chk_fresh".into(), json!(bb_squares(*fresh.checkers())));
            m.insert("pin_fresh".into(), json!(bb_squares(*fresh.pinned())));
        }
        Err(_) => {
            m.insert("eq_fresh".into(), json!("unparsable"));
        }
    }
    let legal: Vec<ChessMove> = MoveGen::new_legal(b).collect();
    m.insert("legal".into(), Value::Array(legal.iter().map(|x| mv_json(*x)).collect()));
    m.insert("len".into(), json!(MoveGen::new_legal(b).len()));
}

/// The projected state only (for boards that are not positions, e.g. two kings of one colour during an edit).
fn observe_light(b: &Board, m: &mut Map<String, Value>) {
    let p = proj(b);
    m.insert("sq".into(), json!(sq_string(&p.sq)));
    m.insert("stm".into(), json!((p.stm as char).to_string()));
    m.insert("cr".into(), json!(cr_list(p.cr)));
    m.insert("ep_raw".into(), json!(b.en_passant().map(|s| s.to_index() as i64).unwrap_or(-1)));
    m.insert("hash".into(), json!(b.get_hash().to_string()));
    m.insert("light".into(), json!(true));
}

fn interesting(b: &Board, m: ChessMove) -> bool {
    let cap = b.piece_on(m.get_dest()).is_some();
    let pawn = b.piece_on(m.get_source()) == Some(Piece::Pawn);
    let king = b.piece_on(m.get_source()) == Some(Piece::King);
    let fd = (m.get_source().get_file().to_index() as i32 - m.get_dest().get_file().to_index() as i32).abs();
    let rd = (m.get_source().get_rank().to_index() as i32 - m.get_dest().get_rank().to_index() as i32).abs();
    cap || m.get_promotion().is_some() || (king && fd == 2) || (pawn && fd == 1 && !cap) || (pawn && rd == 2)
}

fn board_chunk(rng: &mut Rng, events: usize, out: &mut dyn Write) {
    let mut n = 0;
    let dirty = Board::from_str(START_FENS[1]).unwrap();
    while n < events {
        let text = START_FENS[rng.below(START_FENS.len())];
        let mut b = Board::from_str(text).expect("start fen");
        let mut ev = Map::new();
        ev.insert("event".into(), json!("Reset"));
        ev.insert("text".into(), json!(text));
        observe(&b, &mut ev);
        writeln!(out, "{}", Value::Object(ev)).unwrap();
        n += 1;
        let plies = 40 + rng.below(360);
        for _ in 0..plies {
            if n >= events {
                break;
            }
            // sometimes try to pass (also while in check, to log the refusal)
            if rng.chance(1, 12) {
                let mut ev = Map::new();
                ev.insert("event".into(), json!("Null"));
                let before = b;
                match b.null_move() {
                    None => {
                        ev.insert("ok".into(), json!(false));
                        observe(&b, &mut ev);
                    }
                    Some(nb) => {
                        ev.insert("ok".into(), json!(true));
                        ev.insert("src_unchanged".into(), json!(before == b));
                        b = nb;
                        observe(&b, &mut ev);
                    }
                }
                writeln!(out, "{}", Value::Object(ev)).unwrap();
                n += 1;
                continue;
            }
            // now and then edit the board through the deprecated in-place API
            if rng.chance(1, 16) {
                let mut ev = Map::new();
                #[allow(deprecated)]
                if rng.chance(1, 2) {
                    let add = rng.chance(2, 3);
                    let c = if rng.chance(1, 2) { Color::White } else { Color::Black };
                    let which = [CastleRights::KingSide, CastleRights::QueenSide, CastleRights::Both][rng.below(3)];
                    let names: Vec<&str> = match (c, which) {
                        (Color::White, CastleRights::KingSide) => vec!["K"],
                        (Color::White, CastleRights::QueenSide) => vec!["Q"],
                        (Color::White, _) => vec!["K", "Q"],
                        (Color::Black, CastleRights::KingSide) => vec!["k"],
                        (Color::Black, CastleRights::QueenSide) => vec!["q"],
                        (Color::Black, _) => vec!["k", "q"],
                    };
                    // only add rights that are backed, so that the game can go on
                    let backed = {
                        let r = if c == Color::White { 0 } else { 56 };
                        let p = proj(&b);
                        let k = if c == Color::White { b'K' } else { b'k' };
                        let rk = if c == Color::White { b'R' } else { b'r' };
                        p.sq[r + 4] == k && (!which.has_kingside() || p.sq[r + 7] == rk) && (!which.has_queenside() || p.sq[r] == rk)
                    };
                    if add && !backed {
                        continue;
                    }
                    let mine = c == b.side_to_move();
                    match (add, rng.chance(1, 2), mine) {
                        (true, false, _) => b.add_castle_rights(c, which),
                        (false, false, _) => b.remove_castle_rights(c, which),
                        (true, true, true) => b.add_my_castle_rights(which),
                        (true, true, false) => b.add_their_castle_rights(which),
                        (false, true, true) => b.remove_my_castle_rights(which),
                        (false, true, false) => b.remove_their_castle_rights(which),
                    }
                    ev.insert("event".into(), json!("Rights"));
                    ev.insert("add".into(), json!(add));
                    ev.insert("which".into(), json!(names));
                    observe(&b, &mut ev);
                } else {
                    let pj = proj(&b);
                    // one edit in four concerns a knight's check on the side to move: put an enemy knight on a square
                    // from which it attacks that king, or take a checking knight away
                    if rng.chance(1, 4) {
                        let stm_c = b.side_to_move();
                        let ksq = b.king_square(stm_c);
                        let from: Vec<Square> = get_knight_moves(ksq).collect();
                        let s = from[rng.below(from.len())];
                        let there = pj.sq[s.to_index()];
                        let enemy_knight = if stm_c == Color::White { b'n' } else { b'N' };
                        if there != b'K' && there != b'k' {
                            let (man, res) = if there == enemy_knight {
                                (b'.', b.clear_square(s))
                            } else {
                                (enemy_knight, b.set_piece(Piece::Knight, !stm_c, s))
                            };
                            ev.insert("event".into(), json!("Edit"));
                            ev.insert("esq".into(), json!(s.to_index()));
                            ev.insert("man".into(), json!((man as char).to_string()));
                            ev.insert("ok".into(), json!(res.is_some()));
                            if let Some(nb) = res {
                                b = nb;
                            }
                            observe(&b, &mut ev);
                            writeln!(out, "{}", Value::Object(ev)).unwrap();
                            n += 1;
                            let mut ev = Map::new();
                            ev.insert("event".into(), json!("Null"));
                            let before = b;
                            match b.null_move() {
                                None => {
                                    ev.insert("ok".into(), json!(false));
                                    observe(&b, &mut ev);
                                }
                                Some(nb) => {
                                    ev.insert("ok".into(), json!(true));
                                    ev.insert("src_unchanged".into(), json!(before == b));
                                    b = nb;
                                    observe(&b, &mut ev);
                                }
                            }
                            writeln!(out, "{}", Value::Object(ev)).unwrap();
                            n += 1;
                            // a knight just set (the pass was refused: it gives check) is taken away again half of the time, and
                            // the turn is offered once more - the check must be gone with the knight
                            if man == enemy_knight && b.side_to_move() == stm_c && b.piece_on(s) == Some(Piece::Knight) && b.color_on(s) == Some(!stm_c) && rng.chance(1, 2) {
                                let mut ev = Map::new();
                                let res = b.clear_square(s);
                                ev.insert("event".into(), json!("Edit"));
                                ev.insert("esq".into(), json!(s.to_index()));
                                ev.insert("man".into(), json!("."));
                                ev.insert("ok".into(), json!(res.is_some()));
                                if let Some(nb) = res {
                                    b = nb;
                                }
                                observe(&b, &mut ev);
                                writeln!(out, "{}", Value::Object(ev)).unwrap();
                                n += 1;
                                let mut ev = Map::new();
                                ev.insert("event".into(), json!("Null"));
                                let before = b;
                                match b.null_move() {
                                    None => {
                                        ev.insert("ok".into(), json!(false));
                                        observe(&b, &mut ev);
                                    }
                                    Some(nb) => {
                                        ev.insert("ok".into(), json!(true));
                                        ev.insert("src_unchanged".into(), json!(before == b));
                                        b = nb;
                                        observe(&b, &mut ev);
                                    }
                                }
                                writeln!(out, "{}", Value::Object(ev)).unwrap();
                                n += 1;
                            }
                        }
                        continue;
                    }
                    // one edit in ten relocates a king: the new king is set first, the old one cleared afterwards
                    if rng.chance(1, 10) {
                        let c = if rng.chance(1, 2) { Color::White } else { Color::Black };
                        let old = b.king_square(c);
                        let other = b.king_square(!c);
                        let free: Vec<usize> = (0..64usize)
                            .filter(|i| pj.sq[*i] == b'.' && (get_king_moves(other) & BitBoard::from_square(Square::new(*i as u8))) == EMPTY)
                            .collect();
                        if free.is_empty() {
                            continue;
                        }
                        let to = Square::new(free[rng.below(free.len())] as u8);
                        let kl = if c == Color::White { b'K' } else { b'k' };
                        let r1 = std::panic::catch_unwind(|| b.set_piece(Piece::King, c, to));
                        let r1 = match r1 { Ok(x) => x, Err(_) => continue };
                        ev.insert("event".into(), json!("Edit"));
                        ev.insert("esq".into(), json!(to.to_index()));
                        ev.insert("man".into(), json!((kl as char).to_string()));
                        ev.insert("ok".into(), json!(r1.is_some()));
                        if let Some(nb) = r1 {
                            b = nb;
                        }
                        observe_light(&b, &mut ev);
                        writeln!(out, "{}", Value::Object(ev)).unwrap();
                        n += 1;
                        if r1.is_none() {
                            continue;
                        }
                        let mut ev = Map::new();
                        let r2 = b.clear_square(old);
                        ev.insert("event".into(), json!("Edit"));
                        ev.insert("esq".into(), json!(old.to_index()));
                        ev.insert("man".into(), json!("."));
                        ev.insert("ok".into(), json!(r2.is_some()));
                        match r2 {
                            Some(nb) => {
                                b = nb;
                                observe(&b, &mut ev);
                                writeln!(out, "{}", Value::Object(ev)).unwrap();
                                n += 1;
                            }
                            None => {
                                // two kings of one colour stay on the board: nothing more can be asked of this position
                                observe_light(&b, &mut ev);
                                writeln!(out, "{}", Value::Object(ev)).unwrap();
                                n += 1;
                                break;
                            }
                        }
                        continue;
                    }
                    let occupied: Vec<usize> = (0..64).filter(|i| pj.sq[*i] != b'.' && pj.sq[*i] != b'K' && pj.sq[*i] != b'k').collect();
                    let targeted = !occupied.is_empty() && rng.chance(1, 2);
                    let i = if targeted { occupied[rng.below(occupied.len())] } else { rng.below(64) };
                    let sq = Square::new(i as u8);
                    let here = pj.sq[i];
                    if here == b'K' || here == b'k' {
                        continue;
                    }
                    // on an occupied square: the same kind in the other colour, or another kind in the same colour
                    let man: u8 = if targeted && rng.chance(1, 2) {
                        swap_case(here)
                    } else if targeted {
                        let alt = b"NBRQ"[rng.below(4)];
                        if here.is_ascii_uppercase() { alt } else { alt.to_ascii_lowercase() }
                    } else if rng.chance(1, 3) {
                        b'.'
                    } else {
                        b"PNBRQpnbrq"[rng.below(10)]
                    };
                    if (man == b'P' || man == b'p') && (i < 8 || i >= 56) {
                        continue;
                    }
                    let res = if man == b'.' {
                        b.clear_square(sq)
                    } else {
                        let (pc, c) = letter_piece(man).unwrap();
                        b.set_piece(pc, c, sq)
                    };
                    ev.insert("event".into(), json!("Edit"));
                    ev.insert("esq".into(), json!(i));
                    ev.insert("man".into(), json!((man as char).to_string()));
                    ev.insert("ok".into(), json!(res.is_some()));
                    if let Some(nb) = res {
                        b = nb;
                    }
                    observe(&b, &mut ev);
                }
                writeln!(out, "{}", Value::Object(ev)).unwrap();
                n += 1;
                // ask straight away whether the turn may be passed in the edited position
                if rng.chance(1, 2) {
                    let mut ev = Map::new();
                    ev.insert("event".into(), json!("Null"));
                    let before = b;
                    match b.null_move() {
                        None => {
                            ev.insert("ok".into(), json!(false));
                            observe(&b, &mut ev);
                        }
                        Some(nb) => {
                            ev.insert("ok".into(), json!(true));
                            ev.insert("src_unchanged".into(), json!(before == b));
                            b = nb;
                            observe(&b, &mut ev);
                        }
                    }
                    writeln!(out, "{}", Value::Object(ev)).unwrap();
                    n += 1;
                }
                continue;
            }
            let ms: Vec<ChessMove> = MoveGen::new_legal(&b).collect();
            if ms.is_empty() {
                break;
            }
            let hot: Vec<ChessMove> = ms.iter().cloned().filter(|m| interesting(&b, *m)).collect();
            let m = if !hot.is_empty() && rng.chance(1, 2) { hot[rng.below(hot.len())] } else { ms[rng.below(ms.len())] };
            let before = b;
            let src = b;
            let r = std::panic::catch_unwind(|| {
                let n1 = src.make_move_new(m);
                let mut n2 = dirty;
                src.make_move(m, &mut n2);
                (n1, n2)
            });
            let mut ev = Map::new();
            ev.insert("event".into(), json!("Move"));
            ev.insert("m".into(), mv_json(m));
            match r {
                Ok((n1, n2)) => {
                    ev.insert("eq_other_entry".into(), json!(n1 == n2));
                    ev.insert("src_unchanged".into(), json!(before == src));
                    b = if rng.chance(1, 2) { n1 } else { n2 };
                    observe(&b, &mut ev);
                }
                Err(_) => {
                    ev.insert("panic".into(), json!(true));
                    writeln!(out, "{}", Value::Object(ev)).unwrap();
                    n += 1;
                    break;
                }
            }
            writeln!(out, "{}", Value::Object(ev)).unwrap();
            n += 1;
        }
    }
}


// ------------------------------------------------------------------ Game
fn result_name(r: Option<GameResult>) -> &'static str {
    match r {
        None => "None",
        Some(GameResult::WhiteCheckmates) => "WhiteCheckmates",
        Some(GameResult::WhiteResigns) => "WhiteResigns",
        Some(GameResult::BlackCheckmates) => "BlackCheckmates",
        Some(GameResult::BlackResigns) => "BlackResigns",
        Some(GameResult::Stalemate) => "Stalemate",
        Some(GameResult::DrawAccepted) => "DrawAccepted",
        Some(GameResult::DrawDeclared) => "DrawDeclared",
    }
}

fn observe_game(g: &Game, ev: &mut Map<String, Value>) {
    let b = g.current_position();
    let p = proj(&b);
    ev.insert("result".into(), json!(result_name(g.result())));
    ev.insert("nact".into(), json!(g.actions().len()));
    ev.insert("stm".into(), json!(if g.side_to_move() == Color::White { "w" } else { "b" }));
    ev.insert("sq".into(), json!(sq_string(&p.sq)));
    ev.insert("cstm".into(), json!((p.stm as char).to_string()));
    ev.insert("cr".into(), json!(cr_list(p.cr)));
    ev.insert("ep_raw".into(), json!(b.en_passant().map(|s| s.to_index() as i64).unwrap_or(-1)));
    ev.insert("can".into(), json!(g.can_declare_draw()));
}

const GAME_FENS: [&str; 26] = [
    "4r1k1/8/8/4n3/8/8/8/1N2K3 w - - 0 1",
    "b3k3/8/8/3n4/8/8/6K1/1N6 w - - 0 1",
    "1n2k3/8/8/8/7p/8/P7/4K1N1 w - - 0 1",
    "1n2k3/p7/8/7P/8/8/8/4K1N1 b - - 0 1",
    "4k1n1/8/8/8/p7/8/7P/1N2K3 w - - 0 1",
    "4k1n1/7p/8/P7/8/8/8/1N2K3 b - - 0 1",
    "rn2k1nr/8/8/8/8/8/8/RN2K1NR w KQkq - 0 1",
    "r3k1nr/8/8/8/8/8/8/R3K1NR w KQkq - 0 1",
    "8/P3k3/8/8/8/8/8/4K3 w - - 0 1",
    "4k3/8/8/8/8/8/p3K3/8 b - - 0 1",
    "8/8/8/8/8/5k2/8/5KQ1 w - - 0 1",
    "k7/8/8/8/8/8/8/4K2R w K - 0 1",
    "rnbqkbnr/pppppppp/8/8/8/8/PPPPPPPP/RNBQKBNR w KQkq - 0 1",
    "r3k2r/8/8/8/8/8/8/R3K2R w KQkq - 0 1",
    "4k3/8/8/8/8/8/8/R3K2R w KQ - 0 1",
    "1n2k1n1/8/8/8/8/8/8/1N2K1N1 w - - 0 1",
    "r3k3/8/8/8/8/8/8/R3K3 w Qq - 0 1",
    "8/8/8/8/8/5k2/8/5K1R w - - 0 1",
    "7k/5Q2/6K1/8/8/8/8/8 b - - 0 1",
    "7k/6Q1/6K1/8/8/8/8/8 b - - 0 1",
    "6k1/8/6K1/8/8/8/8/3Q4 w - - 0 1",
    "4k3/4p3/8/8/8/8/4P3/4K3 w - - 0 1",
    "2b1k3/8/8/8/8/8/8/2B1K3 w - - 0 1",
    "r1bqkbnr/pppp1ppp/2n5/1B2p3/4P3/5N2/PPPP1PPP/RNBQK2R b KQkq - 3 3",
    "4k2r/8/8/3Pp3/8/8/8/R3K3 w Qk e6 0 1",
    "3qk3/8/8/8/8/8/8/3QK3 w - - 0 1",
];

fn reversible(b: &Board, m: ChessMove) -> bool {
    b.piece_on(m.get_source()) != Some(Piece::Pawn) && b.piece_on(m.get_dest()).is_none()
}

fn keeps_rights(b: &Board, m: ChessMove) -> bool {
    let n = b.make_move_new(m);
    n.castle_rights(Color::White) == b.castle_rights(Color::White) && n.castle_rights(Color::Black) == b.castle_rights(Color::Black)
}

fn game_chunk(rng: &mut Rng, events: usize, out: &mut dyn Write, claims: bool) {
    let mut n = 0;
    while n < events {
        let text = GAME_FENS[rng.below(GAME_FENS.len())];
        // the four ways of starting a game must give the same game
        #[allow(deprecated)]
        let (mut g, via) = match rng.below(4) {
            0 => (Game::from_str(text).expect("start fen"), "from_str"),
            1 => (Game::new_with_board(Board::from_str(text).expect("start fen")), "new_with_board"),
            2 => (Game::new_from_fen(text).expect("start fen"), "new_from_fen"),
            _ if text == "rnbqkbnr/pppppppp/8/8/8/8/PPPPPPPP/RNBQKBNR w KQkq - 0 1" => (Game::new(), "new"),
            _ => (Game::from_str(text).expect("start fen"), "from_str"),
        };
        let mut ev = Map::new();
        ev.insert("event".into(), json!("GameNew"));
        ev.insert("via".into(), json!(via));
        ev.insert("text".into(), json!(text));
        observe_game(&g, &mut ev);
        writeln!(out, "{}", Value::Object(ev)).unwrap();
        n += 1;
        // style of this game: shuffle = long reversible play (fifty-move / repetition hunting)
        let shuffle = claims || rng.chance(1, 3);
        // the ply at which a castling right may be given up on purpose
        let rights_ply = 20 + rng.below(80);
        let span = if rng.chance(1, 4) { 220 } else { 120 };
        let len = if shuffle { 130 + rng.below(span) } else { 20 + rng.below(120) };
        let mut history: Vec<ChessMove> = vec![];
        let mut plies = 0usize;
        // scripted opening (sometimes): both sides give up the same castling rights by out-and-back moves, then both make an
        // out-and-back move that keeps the remaining rights - the placement recurs with fewer rights than at the start
        let mut script: Vec<ChessMove> = vec![];
        let both_have_rights = {
            let b0 = g.current_position();
            b0.castle_rights(Color::White) != CastleRights::NoRights && b0.castle_rights(Color::Black) != CastleRights::NoRights
        };
        if shuffle && (both_have_rights || rng.chance(1, 3)) {
            let b0 = g.current_position();
            let mir = |m: ChessMove| ChessMove::new(Square::new(m.get_source().to_index() as u8 ^ 56), Square::new(m.get_dest().to_index() as u8 ^ 56), None);
            let inv = |m: ChessMove| ChessMove::new(m.get_dest(), m.get_source(), None);
            let ms0: Vec<ChessMove> = MoveGen::new_legal(&b0).collect();
            let losing: Vec<ChessMove> = ms0.iter().cloned().filter(|m| reversible(&b0, *m) && !keeps_rights(&b0, *m)).collect();
            let keeping: Vec<ChessMove> = ms0.iter().cloned().filter(|m| reversible(&b0, *m) && keeps_rights(&b0, *m) && b0.piece_on(m.get_source()) == Some(Piece::Knight)).collect();
            if !losing.is_empty() && !keeping.is_empty() {
                let a = losing[rng.below(losing.len())];
                let k = keeping[rng.below(keeping.len())];
                let mut cand = vec![a, mir(a), inv(a), inv(mir(a))];
                for _ in 0..2 {
                    cand.extend_from_slice(&[k, mir(k), inv(k), inv(mir(k))]);
                }
                // keep the script only if every move of it is legal when its turn comes
                let mut t = b0;
                let mut ok = true;
                for m in cand.iter() {
                    if t.legal(*m) {
                        t = t.make_move_new(*m);
                    } else {
                        ok = false;
                        break;
                    }
                }
                if ok {
                    script = cand;
                    script.reverse();
                }
            }
        }
        // rook-pawn roots: the double push comes first and stays the last pawn move, so that the position after it
        // (no en-passant capture possible: the only enemy pawn is across the board edge) can recur
        let edge_root = text.contains("/7p/8/P7/") || text.contains("/p7/8/7P/") || text.contains("/8/7p/8/P7/") || text.contains("/p7/8/8/7P/")
            || GAME_FENS[2..6].contains(&text);
        if GAME_FENS[..2].contains(&text) && shuffle {
            // an enemy man stands alone between its own slider and the king of the side to move: knight out, king out, knight
            // back, king back - twice - brings the START position (a position that was set up, not reached by moves) back
            let b0 = g.current_position();
            let us = b0.side_to_move();
            let n_from = (*b0.pieces(Piece::Knight) & *b0.color_combined(us)).to_square();
            let k_from = b0.king_square(!us);
            let n_to = (get_knight_moves(n_from) & !*b0.combined()).next();
            let k_to = (get_king_moves(k_from) & !*b0.combined()).filter(|s| (get_king_moves(*s) & BitBoard::from_square(b0.king_square(us))) == EMPTY).last();
            if let (Some(nt), Some(kt)) = (n_to, k_to) {
                let cyc = [ChessMove::new(n_from, nt, None), ChessMove::new(k_from, kt, None), ChessMove::new(nt, n_from, None), ChessMove::new(kt, k_from, None)];
                let mut seq = vec![];
                for _ in 0..2 {
                    seq.extend_from_slice(&cyc);
                }
                seq.reverse();
                script = seq;
            }
        }
        if edge_root && shuffle {
            let b0 = g.current_position();
            let push: Vec<ChessMove> = MoveGen::new_legal(&b0)
                .filter(|m| b0.piece_on(m.get_source()) == Some(Piece::Pawn) && (m.get_source().to_index() as i32 - m.get_dest().to_index() as i32).abs() == 16)
                .collect();
            if !push.is_empty() {
                // ... and then both knights go out and come back, twice: the position after the push occurs three times
                let knight_trip = |c: Color| -> Option<(ChessMove, ChessMove)> {
                    let ks = *b0.pieces(Piece::Knight) & *b0.color_combined(c);
                    if ks == EMPTY {
                        return None;
                    }
                    let from = ks.to_square();
                    let to = (get_knight_moves(from) & !*b0.combined()).next()?;
                    Some((ChessMove::new(from, to, None), ChessMove::new(to, from, None)))
                };
                let pusher = b0.side_to_move();
                let mut seq = vec![push[0]];
                if let (Some((o_out, o_back)), Some((p_out, p_back))) = (knight_trip(!pusher), knight_trip(pusher)) {
                    for _ in 0..2 {
                        seq.extend_from_slice(&[o_out, p_out, o_back, p_back]);
                    }
                }
                seq.reverse();
                script = seq;
            }
        }
        // a marathon game only asks whether a draw could be claimed, it never claims (300+ quiet half-moves)
        let marathon = shuffle && rng.chance(1, 5);
        let len = if marathon { 300 + rng.below(40) } else { len };
        for _ in 0..len {
            if n >= events {
                break;
            }
            let b = g.current_position();
            let mut ev = Map::new();
            ev.insert("event".into(), json!("GameOp"));
            let roll = rng.below(100);
            let ms: Vec<ChessMove> = MoveGen::new_legal(&b).collect();
            let (p_move, p_illegal, p_offer, p_accept, p_resign) = if shuffle { (90, 92, 93, 94, 94) } else { (62, 72, 82, 90, 92) };
            if (roll < p_move || !script.is_empty()) && !ms.is_empty() {
                let rev: Vec<ChessMove> = ms.iter().cloned().filter(|m| reversible(&b, *m)).collect();
                let quiet: Vec<ChessMove> = rev.iter().cloned().filter(|m| keeps_rights(&b, *m)).collect();
                // once a hundred quiet half-moves are on the clock, end the game by mate or stalemate if that is possible
                let finisher: Option<ChessMove> = if shuffle && plies >= 100 && rng.chance(2, 3) {
                    quiet.iter().cloned().find(|m| b.make_move_new(*m).status() != BoardStatus::Ongoing)
                } else {
                    None
                };
                // early on, run a pawn home (a promotion without capture is a pawn move too)
                let pawnrun: Vec<ChessMove> = if shuffle && plies < 12 && !edge_root {
                    ms.iter().cloned().filter(|m| b.piece_on(m.get_source()) == Some(Piece::Pawn) && b.piece_on(m.get_dest()).is_none()).collect()
                } else {
                    vec![]
                };
                let scripted = script.pop().filter(|m| ms.contains(m));
                let m = if let Some(s) = scripted {
                    s
                } else if let Some(f) = finisher {
                    f
                } else if !pawnrun.is_empty() && rng.chance(3, 4) {
                    pawnrun[rng.below(pawnrun.len())]
                } else if shuffle {
                    // undo the move before last now and then (builds repetitions), otherwise prefer
                    // reversible moves; give up a castling right once, around rights_ply
                    let back = if history.len() >= 2 && rng.chance(1, 3) {
                        let h = history[history.len() - 2];
                        let inv = ChessMove::new(h.get_dest(), h.get_source(), None);
                        if rev.contains(&inv) { Some(inv) } else { None }
                    } else {
                        None
                    };
                    if let Some(x) = back {
                        x
                    } else if (plies == rights_ply || plies == rights_ply + 1) && rev.len() > quiet.len() {
                        let loses: Vec<ChessMove> = rev.iter().cloned().filter(|m| !quiet.contains(m)).collect();
                        loses[rng.below(loses.len())]
                    } else if !quiet.is_empty() && rng.chance(97, 100) {
                        quiet[rng.below(quiet.len())]
                    } else if !rev.is_empty() && rng.chance(1, 2) {
                        rev[rng.below(rev.len())]
                    } else {
                        ms[rng.below(ms.len())]
                    }
                } else {
                    ms[rng.below(ms.len())]
                };
                let ret = g.make_move(m);
                if ret {
                    history.push(m);
                    plies += 1;
                }
                ev.insert("op".into(), json!("make_move"));
                ev.insert("m".into(), mv_json(m));
                ev.insert("ret".into(), json!(ret));
            } else if roll < p_illegal || ms.is_empty() && roll < p_move {
                let r = rng.next();
                let promos = [None, Some(Piece::Queen), Some(Piece::Knight), None, None];
                let mut m = ChessMove::new(Square::new((r & 63) as u8), Square::new(((r >> 6) & 63) as u8), promos[((r >> 12) % 5) as usize]);
                // half of the time: a legal move's squares with a promotion piece that does not belong there (none on a
                // promotion, queen / pawn / king on an ordinary move, pawn / king on a promotion)
                if !ms.is_empty() && (r >> 20) % 2 == 0 {
                    let lm = ms[((r >> 24) as usize) % ms.len()];
                    let wrong = match lm.get_promotion() {
                        Some(_) => [None, Some(Piece::Pawn), Some(Piece::King)][((r >> 40) % 3) as usize],
                        None => [Some(Piece::Queen), Some(Piece::Pawn), Some(Piece::King), Some(Piece::Knight)][((r >> 40) % 4) as usize],
                    };
                    m = ChessMove::new(lm.get_source(), lm.get_dest(), wrong);
                }
                let ret = g.make_move(m);
                if ret {
                    history.push(m);
                    plies += 1;
                }
                ev.insert("op".into(), json!("make_move"));
                ev.insert("m".into(), mv_json(m));
                ev.insert("ret".into(), json!(ret));
            } else if roll < p_offer {
                let c = if rng.chance(1, 2) { Color::White } else { Color::Black };
                let ret = g.offer_draw(c);
                ev.insert("op".into(), json!("offer_draw"));
                ev.insert("c".into(), json!(if c == Color::White { "w" } else { "b" }));
                ev.insert("ret".into(), json!(ret));
            } else if roll < p_accept {
                let ret = g.accept_draw();
                ev.insert("op".into(), json!("accept_draw"));
                ev.insert("ret".into(), json!(ret));
            } else if roll < p_resign {
                let c = if rng.chance(1, 2) { Color::White } else { Color::Black };
                let ret = g.resign(c);
                ev.insert("op".into(), json!("resign"));
                ev.insert("c".into(), json!(if c == Color::White { "w" } else { "b" }));
                ev.insert("ret".into(), json!(ret));
            } else {
                if marathon {
                    continue;
                }
                // a claim is available: sometimes end the game another way first, the post-result calls then try to declare
                if shuffle && g.can_declare_draw() && rng.chance(1, 4) {
                    let c = if rng.chance(1, 2) { Color::White } else { Color::Black };
                    let ret = g.resign(c);
                    ev.insert("op".into(), json!("resign"));
                    ev.insert("c".into(), json!(if c == Color::White { "w" } else { "b" }));
                    ev.insert("ret".into(), json!(ret));
                    observe_game(&g, &mut ev);
                    writeln!(out, "{}", Value::Object(ev)).unwrap();
                    n += 1;
                    for _ in 0..2 {
                        let mut ev = Map::new();
                        ev.insert("event".into(), json!("GameOp"));
                        let ret = g.declare_draw();
                        ev.insert("op".into(), json!("declare_draw"));
                        ev.insert("ret".into(), json!(ret));
                        observe_game(&g, &mut ev);
                        writeln!(out, "{}", Value::Object(ev)).unwrap();
                        n += 1;
                    }
                    break;
                }
                // declare: in shuffle games only rarely before the interesting region, so that the game goes on
                if shuffle && !(g.can_declare_draw() && rng.chance(1, 6)) && rng.chance(9, 10) {
                    // a pure query step: log an offer instead of ending the game... keep it simple: try declaring
                    // only when it would be refused or with small probability when due
                    if g.can_declare_draw() {
                        continue;
                    }
                }
                let ret = g.declare_draw();
                ev.insert("op".into(), json!("declare_draw"));
                ev.insert("ret".into(), json!(ret));
            }
            observe_game(&g, &mut ev);
            writeln!(out, "{}", Value::Object(ev)).unwrap();
            n += 1;
            if g.result().is_some() {
                // a few more calls after the result: everything must be refused
                for _ in 0..(1 + rng.below(4)) {
                    if n >= events {
                        break;
                    }
                    let mut ev = Map::new();
                    ev.insert("event".into(), json!("GameOp"));
                    match rng.below(5) {
                        0 => {
                            let b = g.current_position();
                            let ms: Vec<ChessMove> = MoveGen::new_legal(&b).collect();
                            let m = if ms.is_empty() { ChessMove::new(Square::new(12), Square::new(28), None) } else { ms[rng.below(ms.len())] };
                            let ret = g.make_move(m);
                            ev.insert("op".into(), json!("make_move"));
                            ev.insert("m".into(), mv_json(m));
                            ev.insert("ret".into(), json!(ret));
                        }
                        1 => {
                            let ret = g.offer_draw(Color::White);
                            ev.insert("op".into(), json!("offer_draw"));
                            ev.insert("c".into(), json!("w"));
                            ev.insert("ret".into(), json!(ret));
                        }
                        2 => {
                            let ret = g.accept_draw();
                            ev.insert("op".into(), json!("accept_draw"));
                            ev.insert("ret".into(), json!(ret));
                        }
                        3 => {
                            let ret = g.resign(Color::Black);
                            ev.insert("op".into(), json!("resign"));
                            ev.insert("c".into(), json!("b"));
                            ev.insert("ret".into(), json!(ret));
                        }
                        _ => {
                            let ret = g.declare_draw();
                            ev.insert("op".into(), json!("declare_draw"));
                            ev.insert("ret".into(), json!(ret));
                        }
                    }
                    observe_game(&g, &mut ev);
                    writeln!(out, "{}", Value::Object(ev)).unwrap();
                    n += 1;
                }
                break;
            }
        }
    }
}

// ------------------------------------------------------------------ MoveGen iterator scripts
const ITER_FENS: [&str; 12] = [
    "2b5/3P4/4K3/8/8/8/8/k7 w - - 0 1",
    "K7/8/8/8/8/4k3/3p4/2B5 b - - 0 1",
    "8/P1k5/K7/8/8/8/8/8 w - - 0 1",
    "n1n5/PPPk4/8/8/8/8/4Kppp/5N1N b - - 0 1",
    "n1n5/PPPk4/8/8/8/8/4Kppp/5N1N w - - 0 1",
    "rnbqkb1r/pp1p1ppp/4pn2/2pP4/4P3/8/PPP2PPP/RNBQKBNR w KQkq c6 0 4",
    "4k3/8/8/2KPp2r/8/8/8/8 w - e6 0 1",
    "8/8/8/8/1kpPp2R/8/8/4K3 b - d3 0 1",
    "r3k2r/Pppp1ppp/1b3nbN/nP6/BBP1P3/q4N2/Pp1P2PP/R2Q1RK1 w kq - 0 1",
    "r3k2r/p1ppqpb1/bn2pnp1/3PN3/1p2P3/2N2Q1p/PPPBBPPP/R3K2R w KQkq - 0 1",
    "4k3/8/8/3pPp2/8/8/8/4K3 w - d6 0 1",
    "1n1n4/2P5/8/8/8/8/6k1/K7 w - - 0 1",
];

fn mask_json(bb: BitBoard) -> Value {
    json!(bb_squares(bb))
}

fn log_len(g: &MoveGen, out: &mut dyn Write, n: &mut usize) {
    let (lo, hi) = g.size_hint();
    writeln!(out, "{}", json!({"event": "Len", "ret": g.len(), "lo": lo, "hi": hi.map(|x| x as i64).unwrap_or(-1)})).unwrap();
    *n += 1;
}

fn random_mask(rng: &mut Rng, b: &Board) -> BitBoard {
    match rng.below(7) {
        0 => *b.color_combined(!b.side_to_move()),
        1 => !*b.color_combined(!b.side_to_move()),
        2 => BitBoard::new(rng.next()),
        3 => BitBoard::new(rng.next() & rng.next() & rng.next()),
        4 => BitBoard::from_square(Square::new((rng.next() & 63) as u8)),
        5 => get_rank(Rank::from_index(rng.below(8))) | get_rank(Rank::from_index(rng.below(8))),
        _ => EMPTY,
    }
}

fn iter_script(rng: &mut Rng, b: &Board, out: &mut dyn Write, n: &mut usize) {
    let all: Vec<ChessMove> = MoveGen::new_legal(b).collect();
    let mut g = MoveGen::new_legal(b);
    let mut sh = MoveGen::new_legal(b);
    let p = proj(b);
    writeln!(
        out,
        "{}",
        json!({"event": "IterNew", "fen": format!("{}", b), "all": all.iter().map(|m| mv_json(*m)).collect::<Vec<_>>(),
               "sq": sq_string(&p.sq), "stm": (p.stm as char).to_string(), "cr": cr_list(p.cr),
               "ep_raw": b.en_passant().map(|s| s.to_index() as i64).unwrap_or(-1)})
    )
    .unwrap();
    *n += 1;
    log_len(&g, out, n);
    // a mask may already be in place when the removals are made (nothing has been drawn yet)
    if rng.chance(1, 3) {
        let m = random_mask(rng, b);
        g.set_iterator_mask(m);
        sh.set_iterator_mask(m);
        writeln!(out, "{}", json!({"event": "SetMask", "mask": mask_json(m)})).unwrap();
        *n += 1;
        log_len(&g, out, n);
    }
    // removals, beforehand
    let nrem = [0, 0, 1, 1, 2, 3][rng.below(6)];
    for _ in 0..nrem {
        if rng.chance(1, 3) {
            let m = random_mask(rng, b);
            g.remove_mask(m);
            sh.remove_mask(m);
            writeln!(out, "{}", json!({"event": "RemoveMask", "mask": mask_json(m)})).unwrap();
        } else {
            // prefer en-passant captures and promotions when there are any
            let special: Vec<ChessMove> = all
                .iter()
                .cloned()
                .filter(|m| m.get_promotion().is_some() || (b.piece_on(m.get_source()) == Some(Piece::Pawn) && m.get_source().get_file() != m.get_dest().get_file() && b.piece_on(m.get_dest()).is_none()))
                .collect();
            let m = if !special.is_empty() && rng.chance(1, 2) {
                special[rng.below(special.len())]
            } else if !all.is_empty() && rng.chance(5, 6) {
                all[rng.below(all.len())]
            } else {
                let r = rng.next();
                ChessMove::new(Square::new((r & 63) as u8), Square::new(((r >> 6) & 63) as u8), None)
            };
            let ret = g.remove_move(m);
            sh.remove_move(m);
            writeln!(out, "{}", json!({"event": "RemoveMove", "m": mv_json(m), "ret": ret})).unwrap();
        }
        *n += 1;
        log_len(&g, out, n);
    }
    // masks, each drawn to exhaustion; the last one is the full mask.  A shadow generator receives the same calls but is
    // only ever advanced by next(): until the first adaptor call both are in the same state, so the moves an adaptor
    // (nth / skip / step_by) passes over are the ones the shadow yields - they are logged as drawn ("via": "skipped").
    // At most one such call per script; afterwards the shadow is not consulted any more.
    let nmasks = rng.below(4);
    let mut adaptor_used = false;
    for k in 0..=nmasks {
        let m = if k == nmasks { !EMPTY } else { random_mask(rng, b) };
        if !(k == 0 && nmasks == 0 && rng.chance(1, 2)) {
            g.set_iterator_mask(m);
            sh.set_iterator_mask(m);
            writeln!(out, "{}", json!({"event": "SetMask", "mask": mask_json(m)})).unwrap();
            *n += 1;
            log_len(&g, out, n);
        }
        loop {
            // now and then drain what is left under this mask through a consuming adaptor
            if rng.chance(1, 14) {
                let before = g.len();
                let (via, count, last): (&str, usize, Option<ChessMove>) = match rng.below(4) {
                    0 => ("count", g.by_ref().count(), None),
                    1 => {
                        let mut c = 0;
                        let l = g.by_ref().fold(None, |_, x| {
                            c += 1;
                            Some(x)
                        });
                        ("fold", c, l)
                    }
                    2 => {
                        let mut c = 0;
                        let mut l = None;
                        g.by_ref().for_each(|x| {
                            c += 1;
                            l = Some(x)
                        });
                        ("for_each", c, l)
                    }
                    _ => {
                        let l = g.by_ref().last();
                        ("last", before, l)
                    }
                };
                while sh.next().is_some() {}
                writeln!(out, "{}", json!({"event": "Drain", "via": via, "count": count, "has_last": via != "count",
                                          "last": last.map(mv_json).unwrap_or(json!([]))})).unwrap();
                *n += 1;
                log_len(&g, out, n);
                break;
            }
            if !adaptor_used && rng.chance(1, 6) {
                adaptor_used = true;
                let kk = 1 + rng.below(3);
                let mut skipped: Vec<ChessMove> = vec![];
                for _ in 0..kk {
                    if let Some(x) = sh.next() {
                        skipped.push(x);
                    }
                }
                let expect = if skipped.len() == kk { sh.next() } else { None };
                let (via, r) = match rng.below(3) {
                    0 => ("nth", g.nth(kk)),
                    1 => ("skip", g.by_ref().skip(kk).next()),
                    _ => {
                        // step_by(kk + 1): the first element, then every (kk+1)-th: take the second one
                        let mut it = g.by_ref().step_by(kk + 1);
                        let first = it.next();
                        let second = it.next();
                        // the first element was drawn too: it is what the shadow yielded first
                        if let Some(f) = first {
                            let sf = skipped.first().cloned();
                            writeln!(out, "{}", json!({"event": "Next", "ret": mv_json(f), "via": "step_by_first", "agree": sf == Some(f)})).unwrap();
                            *n += 1;
                            if !skipped.is_empty() {
                                skipped.remove(0);
                            }
                            // the shadow has to pass over one more move to stay in step
                            if skipped.len() + 1 == kk {
                                if let Some(e) = expect {
                                    skipped.push(e);
                                }
                            }
                        }
                        ("step_by", second)
                    }
                };
                let expect = if via == "step_by" { if skipped.len() == kk { sh.next() } else { None } } else { expect };
                for x in skipped.iter() {
                    writeln!(out, "{}", json!({"event": "Next", "ret": mv_json(*x), "via": "skipped"})).unwrap();
                    *n += 1;
                }
                match r {
                    Some(mv) => writeln!(out, "{}", json!({"event": "Next", "ret": mv_json(mv), "via": via, "agree": expect == Some(mv)})).unwrap(),
                    None => writeln!(out, "{}", json!({"event": "Next", "ret": [], "via": via, "agree": expect.is_none()})).unwrap(),
                }
                *n += 1;
                log_len(&g, out, n);
                if r.is_none() {
                    break;
                }
                continue;
            }
            let r = g.next();
            if !adaptor_used {
                sh.next();
            }
            match r {
                Some(mv) => writeln!(out, "{}", json!({"event": "Next", "ret": mv_json(mv)})).unwrap(),
                None => writeln!(out, "{}", json!({"event": "Next", "ret": []})).unwrap(),
            }
            *n += 1;
            log_len(&g, out, n);
            if r.is_none() {
                break;
            }
        }
    }
}

fn iter_chunk(rng: &mut Rng, events: usize, out: &mut dyn Write) {
    let mut n = 0;
    while n < events {
        let text = if rng.chance(1, 3) { ITER_FENS[rng.below(ITER_FENS.len())] } else { START_FENS[rng.below(START_FENS.len())] };
        let mut b = Board::from_str(text).expect("fen");
        // the curated position itself first, then positions along a playout from it
        iter_script(rng, &b, out, &mut n);
        if n >= events {
            return;
        }
        let plies = rng.below(60);
        for _ in 0..plies {
            let ms: Vec<ChessMove> = MoveGen::new_legal(&b).collect();
            if ms.is_empty() {
                break;
            }
            let hot: Vec<ChessMove> = ms.iter().cloned().filter(|m| interesting(&b, *m)).collect();
            let m = if !hot.is_empty() && rng.chance(1, 2) { hot[rng.below(hot.len())] } else { ms[rng.below(ms.len())] };
            b = b.make_move_new(m);
            // script the positions that have something special to offer, and some of the others
            let special = b.en_passant().is_some()
                || (b.pieces(Piece::Pawn) & b.color_combined(b.side_to_move()) & get_rank(b.side_to_move().to_seventh_rank())) != EMPTY;
            if (special && rng.chance(1, 2)) || rng.chance(1, 12) {
                iter_script(rng, &b, out, &mut n);
                if n >= events {
                    return;
                }
            }
        }
        iter_script(rng, &b, out, &mut n);
    }
}

// ------------------------------------------------------------------ text parsers (SAN, UCI)
fn san_guess(rng: &mut Rng, b: &Board, m: ChessMove, all: &Vec<ChessMove>) -> String {
    // a plausible SAN-like text for m with random (possibly wrong) decorations; TLC decides what it must parse to
    let piece = b.piece_on(m.get_source()).unwrap();
    let src = format!("{}", m.get_source());
    let dst = format!("{}", m.get_dest());
    let is_castle = piece == Piece::King && (m.get_source().get_file().to_index() as i32 - m.get_dest().get_file().to_index() as i32).abs() == 2;
    let is_ep = piece == Piece::Pawn && m.get_source().get_file() != m.get_dest().get_file() && b.piece_on(m.get_dest()).is_none();
    let capture = b.piece_on(m.get_dest()).is_some() || is_ep;
    let nb = b.make_move_new(m);
    let mut text = String::new();
    if is_castle {
        text.push_str(if m.get_dest().get_file() == File::G { "O-O" } else { "O-O-O" });
    } else {
        let letter = match piece { Piece::Pawn => "", Piece::Knight => "N", Piece::Bishop => "B", Piece::Rook => "R", Piece::Queen => "Q", Piece::King => "K" };
        text.push_str(letter);
        if piece == Piece::Pawn {
            if capture || rng.chance(1, 20) {
                text.push_str(&src[0..1]);
            }
        } else {
            let rivals = all.iter().filter(|o| b.piece_on(o.get_source()) == Some(piece) && o.get_dest() == m.get_dest()).count();
            match if rivals > 1 { rng.below(4) } else { [0, 0, 0, 1, 2, 3][rng.below(6)] } {
                0 => {}
                1 => text.push_str(&src[0..1]),
                2 => text.push_str(&src[1..2]),
                _ => text.push_str(&src),
            }
        }
        if capture != rng.chance(1, 25) {
            text.push('x');
        }
        text.push_str(&dst);
        if let Some(p) = m.get_promotion() {
            text.push_str(match p { Piece::Queen => "Q", Piece::Rook => "R", Piece::Bishop => "B", _ => "N" });
        }
    }
    let in_check = *nb.checkers() != EMPTY;
    let mate = in_check && MoveGen::new_legal(&nb).len() == 0;
    if in_check && rng.chance(2, 3) {
        text.push(if mate { '#' } else { '+' });
    } else if rng.chance(1, 30) {
        text.push(if rng.chance(1, 2) { '+' } else { '#' });
    }
    if (is_ep && rng.chance(1, 2)) || rng.chance(1, 40) {
        text.push_str(" e.p.");
    }
    text
}

// includes non-ASCII characters whose low byte looks like a file letter or a rank digit (U+0131, U+0161, U+0165, U+0138)
const NOISE: [&str; 34] = ["a", "h", "1", "8", "x", "N", "K", "Q", "O", "-", "+", "#", "=", " ", "e.p.", "0", "9", "i", "é", "♞", "\u{1F600}", "\u{0}", "ß", ".",
    "\u{0131}", "\u{0161}", "\u{0165}", "\u{0138}", "\t", "\u{2003}", "\u{212A}", "\u{2126}", "\u{1E9E}", "\u{0130}"];

fn mutate(rng: &mut Rng, s: &str) -> String {
    let chars: Vec<char> = s.chars().collect();
    let mut out: Vec<String> = chars.iter().map(|c| c.to_string()).collect();
    match rng.below(6) {
        5 => {
            // garbage in front, sometimes with the en-passant mark behind it
            out.insert(0, NOISE[rng.below(NOISE.len())].to_string());
            if rng.chance(1, 2) {
                out.push(" e.p.".to_string());
            }
        }
        4 => {
            // trailing garbage of a few tokens after an otherwise sound text
            for _ in 0..(1 + rng.below(7)) {
                out.push(NOISE[rng.below(NOISE.len())].to_string());
            }
        }
        0 if !out.is_empty() => {
            out.remove(rng.below(out.len()));
        }
        1 => {
            let i = rng.below(out.len() + 1);
            out.insert(i, NOISE[rng.below(NOISE.len())].to_string());
        }
        2 if !out.is_empty() => {
            let i = rng.below(out.len());
            out[i] = NOISE[rng.below(NOISE.len())].to_string();
        }
        _ => {
            let n = rng.below(out.len() + 1);
            out.truncate(n);
        }
    }
    out.concat()
}

fn random_text(rng: &mut Rng) -> String {
    let n = rng.below(9);
    (0..n).map(|_| NOISE[rng.below(NOISE.len())]).collect::<Vec<_>>().concat()
}

fn san_ret(b: &Board, text: &str) -> (&'static str, Value) {
    match std::panic::catch_unwind(|| ChessMove::from_san(b, text)) {
        Ok(Ok(m)) => ("ok", mv_json(m)),
        Ok(Err(_)) => ("err", json!([])),
        Err(_) => ("panic", json!([])),
    }
}

fn text_chunk(rng: &mut Rng, events: usize, out: &mut dyn Write) {
    let mut n = 0;
    while n < events {
        // ---- coordinate text ----
        for _ in 0..40 {
            let r = rng.next();
            let base = format!("{}{}", Square::new((r & 63) as u8), Square::new(((r >> 6) & 63) as u8));
            let promo = ["", "q", "r", "b", "n", "k", "Q", "=q", "x", "é"][rng.below(10)];
            let mut text = format!("{}{}", base, promo);
            if rng.chance(1, 3) {
                text = mutate(rng, &text);
            }
            if rng.chance(1, 6) {
                text = random_text(rng);
            }
            let (st, mv) = match std::panic::catch_unwind(|| ChessMove::from_str(&text)) {
                Ok(Ok(m)) => ("ok", mv_json(m)),
                Ok(Err(_)) => ("err", json!([])),
                Err(_) => ("panic", json!([])),
            };
            writeln!(out, "{}", json!({"event": "UciMove", "text": text, "st": st, "mv": mv})).unwrap();
            let stext = if rng.chance(1, 2) { text.chars().take(rng.below(4)).collect::<String>() } else { mutate(rng, &base[0..2]) };
            let (sst, sqi) = match std::panic::catch_unwind(|| Square::from_str(&stext)) {
                Ok(Ok(s)) => ("ok", s.to_index() as i64),
                Ok(Err(_)) => ("err", -1),
                Err(_) => ("panic", -1),
            };
            writeln!(out, "{}", json!({"event": "UciSquare", "text": stext, "st": sst, "sqi": sqi})).unwrap();
            // the deprecated String-taking variant
            #[allow(deprecated)]
            let (ost, osqi) = match std::panic::catch_unwind(|| Square::from_string(stext.clone())) {
                Ok(Some(s)) => ("ok", s.to_index() as i64),
                Ok(None) => ("err", -1),
                Err(_) => ("panic", -1),
            };
            writeln!(out, "{}", json!({"event": "UciSquare", "text": stext, "st": ost, "sqi": osqi, "via": "from_string"})).unwrap();
            n += 3;
        }
        // ---- SAN against positions of a playout ----
        let textfen = if rng.chance(1, 3) { ITER_FENS[rng.below(ITER_FENS.len())] } else { START_FENS[rng.below(START_FENS.len())] };
        let mut b = Board::from_str(textfen).expect("fen");
        let plies = 10 + rng.below(80);
        for _ in 0..plies {
            if n >= events {
                return;
            }
            // now and then the turn is passed first: the position after a null move is a position like any other (its
            // derived state was rebuilt by null_move, not by a move maker or the reader)
            let mut force = false;
            if rng.chance(1, 8) {
                if let Some(nb) = b.null_move() {
                    b = nb;
                    force = true;
                }
            }
            let ms: Vec<ChessMove> = MoveGen::new_legal(&b).collect();
            if ms.is_empty() {
                break;
            }
            let castle_or_ep = force || ms.iter().any(|m| {
                let p = b.piece_on(m.get_source()).unwrap();
                (p == Piece::King && (m.get_source().get_file().to_index() as i32 - m.get_dest().get_file().to_index() as i32).abs() == 2)
                    || (p == Piece::Pawn && m.get_source().get_file() != m.get_dest().get_file() && b.piece_on(m.get_dest()).is_none())
            });
            if castle_or_ep || rng.chance(1, 6) {
                let p = proj(&b);
                writeln!(
                    out,
                    "{}",
                    json!({"event": "SanPos", "fen": format!("{}", b), "sq": sq_string(&p.sq), "stm": (p.stm as char).to_string(), "cr": cr_list(p.cr),
                           "ep_raw": b.en_passant().map(|s| s.to_index() as i64).unwrap_or(-1)})
                )
                .unwrap();
                n += 1;
                for m in ms.iter() {
                    let k = 1 + rng.below(2);
                    for _ in 0..k {
                        let mut text = san_guess(rng, &b, *m, &ms);
                        if rng.chance(1, 5) {
                            text = mutate(rng, &text);
                        }
                        let (st, mv) = san_ret(&b, &text);
                        writeln!(out, "{}", json!({"event": "San", "text": text, "st": st, "mv": mv})).unwrap();
                        n += 1;
                    }
                }
                for _ in 0..4 {
                    // a few tokens of noise (often non-ASCII) followed by the en-passant mark
                    let k = 1 + rng.below(3);
                    let mut text: String = (0..k).map(|_| NOISE[rng.below(NOISE.len())]).collect::<Vec<_>>().concat();
                    text.push_str(" e.p.");
                    let (st, mv) = san_ret(&b, &text);
                    writeln!(out, "{}", json!({"event": "San", "text": text, "st": st, "mv": mv})).unwrap();
                    n += 1;
                }
                for _ in 0..6 {
                    let text = random_text(rng);
                    let (st, mv) = san_ret(&b, &text);
                    writeln!(out, "{}", json!({"event": "San", "text": text, "st": st, "mv": mv})).unwrap();
                    n += 1;
                }
            }
            let hot: Vec<ChessMove> = ms.iter().cloned().filter(|m| interesting(&b, *m)).collect();
            let m = if !hot.is_empty() && rng.chance(1, 2) { hot[rng.below(hot.len())] } else { ms[rng.below(ms.len())] };
            b = b.make_move_new(m);
        }
    }
}

// ------------------------------------------------------------------ construction / validation (C07)
fn exercise(b: &Board) -> String {
    // everything a user may do with an accepted position
    let r = std::panic::catch_unwind(|| {
        let ms: Vec<ChessMove> = MoveGen::new_legal(b).collect();
        let _ = MoveGen::new_legal(b).len();
        let _ = b.status();
        let _ = format!("{}", b);
        let _ = b.is_sane();
        let _ = b.get_hash();
        let _ = b.null_move();
        let mut tmp = *b;
        for m in ms.iter() {
            let n = b.make_move_new(*m);
            b.make_move(*m, &mut tmp);
            let _ = n.status();
            let _ = format!("{}", n);
            let _ = b.legal(*m);
            let _ = MoveGen::legal_quick(b, *m);
        }
        let mut g = MoveGen::new_legal(b);
        g.set_iterator_mask(*b.color_combined(!b.side_to_move()));
        for _ in &mut g {}
        g.set_iterator_mask(!EMPTY);
        for _ in &mut g {}
        for i in 0..64u8 {
            let _ = b.legal(ChessMove::new(Square::new(i), Square::new(63 - i), None));
        }
        ms.len()
    });
    match r {
        Ok(_) => "safe".to_string(),
        Err(_) => "panic".to_string(),
    }
}

fn builder_of(sq: &[u8; 64], stm: u8, cr: u8, epfile: i64) -> BoardBuilder {
    let mut bb = BoardBuilder::new();
    for i in 0..64u8 {
        if let Some((pc, c)) = letter_piece(sq[i as usize]) {
            bb.piece(Square::new(i), pc, c);
        }
    }
    bb.side_to_move(if stm == b'w' { Color::White } else { Color::Black });
    bb.castle_rights(Color::White, castle_rights_of(cr, Color::White));
    bb.castle_rights(Color::Black, castle_rights_of(cr, Color::Black));
    if epfile >= 0 {
        bb.en_passant(Some(File::from_index(epfile as usize)));
    }
    bb
}

/// the same builder state reached through different orders of the setter calls (0: as builder_of)
fn builder_by_order(sq: &[u8; 64], stm: u8, cr: u8, epfile: i64, order: usize) -> BoardBuilder {
    let mut bb = builder_of(sq, stm, cr, epfile);
    let stmc = if stm == b'w' { Color::White } else { Color::Black };
    let epf = if epfile >= 0 { Some(File::from_index(epfile as usize)) } else { None };
    match order {
        1 => {
            // en passant first, side to move afterwards (twice, via the other colour)
            bb.en_passant(epf);
            bb.side_to_move(!stmc);
            bb.side_to_move(stmc);
        }
        2 => {
            bb.side_to_move(!stmc);
            bb.en_passant(epf);
            bb.side_to_move(stmc);
        }
        3 => {
            // through setup()
            let mut men = vec![];
            for i in 0..64u8 {
                if let Some((pc, c)) = letter_piece(sq[i as usize]) {
                    men.push((Square::new(i), pc, c));
                }
            }
            bb = BoardBuilder::setup(&men, stmc, castle_rights_of(cr, Color::White), castle_rights_of(cr, Color::Black), epf);
        }
        4 => {
            // a fresh builder (White to move by default): en passant before the side to move is named
            let mut b2 = BoardBuilder::new();
            b2.en_passant(epf);
            for i in 0..64u8 {
                if let Some((pc, c)) = letter_piece(sq[i as usize]) {
                    b2.piece(Square::new(i), pc, c);
                }
            }
            b2.castle_rights(Color::White, castle_rights_of(cr, Color::White));
            b2.castle_rights(Color::Black, castle_rights_of(cr, Color::Black));
            b2.side_to_move(stmc);
            bb = b2;
        }
        _ => {}
    }
    bb
}

fn log_outcome(ev: &mut Map<String, Value>, r: std::thread::Result<Result<Board, Error>>, progress: &str, input: &Value) {
    match r {
        Err(_) => {
            ev.insert("ret".into(), json!("panic"));
        }
        Ok(Err(_)) => {
            ev.insert("ret".into(), json!("err"));
        }
        Ok(Ok(b)) => {
            ev.insert("ret".into(), json!("ok"));
            let p = proj(&b);
            ev.insert("sq".into(), json!(sq_string(&p.sq)));
            ev.insert("stm".into(), json!((p.stm as char).to_string()));
            ev.insert("cr".into(), json!(cr_list(p.cr)));
            ev.insert("ep_raw".into(), json!(b.en_passant().map(|s| s.to_index() as i64).unwrap_or(-1)));
            // an abort (non-unwinding panic of a debug-build UB check) kills the process: leave a marker first
            std::fs::write(progress, format!("{}", input)).ok();
            ev.insert("exercise".into(), json!(exercise(&b)));
            std::fs::remove_file(progress).ok();
        }
    }
}

fn fen_of(sq: &[u8; 64], stm: u8, cr: u8, epfile: i64, rng: &mut Rng) -> String {
    let p = Pos { sq: *sq, stm, cr, ep: if epfile < 0 { -1 } else { (if stm == b'w' { 40 } else { 16 }) + epfile as i8 } };
    // the clocks of a standard FEN are arbitrary non-negative / positive integers (long games included)
    let half = [rng.below(60), rng.below(60), 99, 100, 255, 256, 300, 1000][rng.below(8)];
    let full = [1 + rng.below(90), 1 + rng.below(90), 127, 128, 255, 256, 257, 1000, 5949][rng.below(9)];
    format!("{} {} {}", p.describe(), half, full)
}

const FEN_NOISE: [&str; 28] = ["/", "8", "1", "9", "0", "k", "K", "p", "P", "q", " ", "w", "b", "-", "KQkq", "e3", "x", "é", "♚", "\u{1F600}", "\t", "//",
    "\u{FF18}", "\u{0668}", "\u{00B2}", "\u{00BD}", "\u{2167}", "\u{0661}"];

/// Boundary positions for the move list (16 mobile men, two en-passant capturers, both castlings): the most entries
/// a legal position can put into the generator's fixed-size list.
const BOUNDARY_FENS: [&str; 4] = [
    "4k3/8/8/1NPpP1N1/8/1PNBB1P1/P2Q1P1P/R3K2R w KQ d6 0 1",
    "r3k2r/p2q1p1p/1pnbb1p1/8/1npPp1n1/8/8/4K3 b kq d3 0 1",
    "4k3/8/8/1NPpP1N1/8/1PNBB1P1/P2Q1P1P/R3K2R w KQ - 0 1",
    "r3k2r/pppppppp/8/8/8/8/PPPPPPPP/R3K2R w KQkq - 0 1",
];

fn validate_chunk(rng: &mut Rng, events: usize, out: &mut dyn Write, progress: &str) {
    let mut n = 0;
    let letters = b"PNBRQKpnbrqk";
    for text in BOUNDARY_FENS.iter() {
        let mut ev = Map::new();
        ev.insert("event".into(), json!("Parse"));
        ev.insert("text".into(), json!(text));
        ev.insert("wellformed".into(), json!(false));
        let t2 = text.to_string();
        let r = std::panic::catch_unwind(move || Board::from_str(&t2));
        log_outcome(&mut ev, r, progress, &json!({"text": text}));
        writeln!(out, "{}", Value::Object(ev)).unwrap();
        n += 1;
    }
    while n < events {
        // a base position from a playout
        let text = START_FENS[rng.below(START_FENS.len())];
        let mut b = Board::from_str(text).expect("fen");
        for _ in 0..rng.below(80) {
            let ms: Vec<ChessMove> = MoveGen::new_legal(&b).collect();
            if ms.is_empty() {
                break;
            }
            let hot: Vec<ChessMove> = ms.iter().cloned().filter(|m| interesting(&b, *m)).collect();
            b = b.make_move_new(if !hot.is_empty() && rng.chance(1, 2) { hot[rng.below(hot.len())] } else { ms[rng.below(ms.len())] });
        }
        let base = proj(&b);
        for _ in 0..12 {
            if n >= events {
                return;
            }
            let mut sq = base.sq;
            let mut stm = base.stm;
            let mut cr = base.cr;
            let mut epfile: i64 = if base.ep >= 0 { (base.ep & 7) as i64 } else { -1 };
            // mutations (several may apply); about one in four inputs stays a valid position
            let nm = [0, 0, 1, 1, 1, 2, 3, 5][rng.below(8)];
            for _ in 0..nm {
                match rng.below(14) {
                    0 => {
                        for i in 0..64 {
                            if sq[i] == b'K' || (sq[i] == b'k' && rng.chance(1, 2)) {
                                sq[i] = b'.';
                                break;
                            }
                        }
                    }
                    1 => sq[rng.below(64)] = if rng.chance(1, 2) { b'K' } else { b'k' },
                    2 => stm = if stm == b'w' { b'b' } else { b'w' },
                    3 => cr |= 1 << rng.below(4),
                    4 => cr = (rng.next() & 15) as u8,
                    5 => epfile = rng.below(9) as i64 - 1,
                    6 => sq[if rng.chance(1, 2) { rng.below(8) } else { 56 + rng.below(8) }] = if rng.chance(1, 2) { b'P' } else { b'p' },
                    7 => {
                        // crowd the board: far more men than a chess set has
                        let k = 4 + rng.below(50);
                        for _ in 0..k {
                            let i = rng.below(64);
                            if sq[i] == b'.' {
                                let l = letters[rng.below(12)];
                                if l != b'K' && l != b'k' {
                                    sq[i] = l;
                                }
                            }
                        }
                    }
                    8 => sq[rng.below(64)] = b'.',
                    9 => {
                        let i = rng.below(64);
                        if sq[i] != b'K' && sq[i] != b'k' {
                            sq[i] = letters[rng.below(12)];
                        }
                    }
                    12 => {
                        // the en-passant file points at a pawn of the side to move that has a friend beside it
                        let (rank, me) = if stm == b'w' { (4usize, b'P') } else { (3usize, b'p') };
                        let f = rng.below(7);
                        sq[rank * 8 + f] = me;
                        sq[rank * 8 + f + 1] = me;
                        epfile = (f + rng.below(2)) as i64;
                    }
                    11 => {
                        // castling confusion: the ENEMY king on a side's king home square, that side's rooks at home, its own king elsewhere
                        let white = rng.chance(1, 2);
                        let (home, ra, rh, own, enemy, rook) = if white { (4usize, 0usize, 7usize, b'K', b'k', b'R') } else { (60, 56, 63, b'k', b'K', b'r') };
                        for i in 0..64 {
                            if sq[i] == b'K' || sq[i] == b'k' {
                                sq[i] = b'.';
                            }
                        }
                        sq[home] = enemy;
                        sq[ra] = rook;
                        sq[rh] = rook;
                        let mut j = rng.below(64);
                        while j == home || j == ra || j == rh || (j as i32 / 8 - home as i32 / 8).abs() < 3 {
                            j = rng.below(64);
                        }
                        sq[j] = own;
                        cr = if white { [1u8, 2, 3][rng.below(3)] } else { [4u8, 8, 12][rng.below(3)] };
                    }
                    10 => {
                        // one colour only gets many queens / knights
                        let l = [b'Q', b'N', b'q', b'n', b'R', b'b'][rng.below(6)];
                        for _ in 0..(10 + rng.below(30)) {
                            let i = rng.below(64);
                            if sq[i] == b'.' {
                                sq[i] = l;
                            }
                        }
                    }
                    _ => {
                        sq = [b'.'; 64];
                        for _ in 0..rng.below(20) {
                            sq[rng.below(64)] = letters[rng.below(12)];
                        }
                    }
                }
            }
            let input = json!({"in_sq": sq_string(&sq), "in_stm": (stm as char).to_string(), "in_cr": cr_list(cr), "in_epfile": epfile});
            if rng.chance(1, 3) {
                // the builder as a data structure: getters, indexing, rendering, re-parsing
                let mut ev = input.as_object().unwrap().clone();
                ev.insert("event".into(), json!("BuilderState"));
                let order = rng.below(5);
                let r = std::panic::catch_unwind(|| {
                    // the same state reached through different orders of the setter calls
                    let bb = builder_by_order(&sq, stm, cr, epfile, order);
                    let text = format!("{}", bb);
                    let text2 = match BoardBuilder::from_str(&text) {
                        Ok(b2) => format!("{}", b2),
                        Err(_) => "unparsable".to_string(),
                    };
                    let mut g_sq = [b'.'; 64];
                    for i in 0..64u8 {
                        if let Some((pc, c)) = bb[Square::new(i)] {
                            g_sq[i as usize] = piece_letter(pc, c);
                        }
                    }
                    let g_cr = (if bb.get_castle_rights(Color::White).has_kingside() { 1 } else { 0 })
                        | (if bb.get_castle_rights(Color::White).has_queenside() { 2 } else { 0 })
                        | (if bb.get_castle_rights(Color::Black).has_kingside() { 4 } else { 0 })
                        | (if bb.get_castle_rights(Color::Black).has_queenside() { 8 } else { 0 });
                    (text, text2, g_sq, if bb.get_side_to_move() == Color::White { "w" } else { "b" }, g_cr, bb.get_en_passant().map(|s| s.to_index() as i64).unwrap_or(-1))
                });
                match r {
                    Ok((text, text2, g_sq, g_stm, g_cr, g_ep)) => {
                        ev.insert("text".into(), json!(text));
                        ev.insert("text2".into(), json!(text2));
                        ev.insert("g_sq".into(), json!(sq_string(&g_sq)));
                        ev.insert("g_stm".into(), json!(g_stm));
                        ev.insert("g_cr".into(), json!(cr_list(g_cr)));
                        ev.insert("g_ep".into(), json!(g_ep));
                    }
                    Err(_) => {
                        ev.insert("text".into(), json!("panic"));
                        ev.insert("text2".into(), json!(""));
                        ev.insert("g_sq".into(), json!(""));
                        ev.insert("g_stm".into(), json!(""));
                        ev.insert("g_cr".into(), json!([]));
                        ev.insert("g_ep".into(), json!(-2));
                    }
                }
                writeln!(out, "{}", Value::Object(ev)).unwrap();
                n += 1;
                continue;
            }
            if rng.chance(1, 2) {
                // through the builder
                let mut ev = input.as_object().unwrap().clone();
                ev.insert("event".into(), json!("Build"));
                let order = if rng.chance(1, 2) { 0 } else { rng.below(5) };
                ev.insert("order".into(), json!(order));
                let r = std::panic::catch_unwind(|| {
                    let bb = builder_by_order(&sq, stm, cr, epfile, order);
                    Board::try_from(&bb)
                });
                log_outcome(&mut ev, r, progress, &input);
                writeln!(out, "{}", Value::Object(ev)).unwrap();
            } else {
                // through text
                let mut text = fen_of(&sq, stm, cr, epfile, rng);
                let mut wellformed = true;
                let roll = rng.below(10);
                if roll < 3 {
                    wellformed = false;
                    for _ in 0..(1 + rng.below(3)) {
                        let mut chars: Vec<String> = text.chars().map(|c| c.to_string()).collect();
                        match rng.below(4) {
                            0 if !chars.is_empty() => {
                                chars.remove(rng.below(chars.len()));
                            }
                            1 => {
                                let i = rng.below(chars.len() + 1);
                                chars.insert(i, FEN_NOISE[rng.below(FEN_NOISE.len())].to_string());
                            }
                            2 if !chars.is_empty() => {
                                let i = rng.below(chars.len());
                                chars[i] = FEN_NOISE[rng.below(FEN_NOISE.len())].to_string();
                            }
                            _ => {
                                let k = rng.below(chars.len() + 1);
                                chars.truncate(k);
                            }
                        }
                        text = chars.concat();
                    }
                } else if roll == 3 {
                    wellformed = false;
                    text = (0..rng.below(40)).map(|_| FEN_NOISE[rng.below(FEN_NOISE.len())]).collect::<Vec<_>>().concat();
                } else if roll == 5 && rng.chance(1, 2) {
                    // hostile en-passant fields
                    wellformed = false;
                    let mut fields: Vec<String> = text.split(' ').map(|x| x.to_string()).collect();
                    if fields.len() >= 4 {
                        fields[3] = ["e\u{e9}", "e\u{0131}", "\u{e9}3", "e", "e33", "-e3", "E3", "e9", "i3", "e\u{1F600}", "\u{2013}", "h\u{0138}"][rng.below(12)].to_string();
                    }
                    text = fields.join(" ");
                } else if roll == 4 {
                    // one whole field replaced by, or prefixed with, noise (other fields stay well formed)
                    wellformed = false;
                    let mut fields: Vec<String> = text.split(' ').map(|x| x.to_string()).collect();
                    let i = rng.below(fields.len());
                    let noise = FEN_NOISE[rng.below(FEN_NOISE.len())].to_string();
                    fields[i] = match rng.below(3) {
                        0 => noise,
                        1 => format!("{}{}", noise, fields[i]),
                        _ => format!("{}{}", fields[i], noise),
                    };
                    text = fields.join(" ");
                }
                let mut ev = input.as_object().unwrap().clone();
                ev.insert("event".into(), json!("Parse"));
                ev.insert("text".into(), json!(text));
                ev.insert("wellformed".into(), json!(wellformed));
                let t2 = text.clone();
                let r = std::panic::catch_unwind(move || Board::from_str(&t2));
                log_outcome(&mut ev, r, progress, &json!({"text": text}));
                writeln!(out, "{}", Value::Object(ev)).unwrap();
            }
            n += 1;
        }
    }
}

// ------------------------------------------------------------------ CacheTable scripts (C19)
/// A value whose equality and order look at `k` only: `a` tells writes apart that compare equal.
#[derive(Copy, Clone, Debug)]
struct CV {
    k: i64,
    a: i64,
}
impl PartialEq for CV {
    fn eq(&self, o: &CV) -> bool {
        self.k == o.k
    }
}
impl PartialOrd for CV {
    fn partial_cmp(&self, o: &CV) -> Option<std::cmp::Ordering> {
        self.k.partial_cmp(&o.k)
    }
}

fn cache_chunk(rng: &mut Rng, events: usize, out: &mut dyn Write, progress: &str) {
    let mut n = 0;
    let mut stamp: i64 = 0;
    while n < events {
        // construction: valid and invalid sizes
        let size: usize = match rng.below(10) {
            0 => rng.below(4097),
            1 => (rng.next() % 2_000_000) as usize,
            2 => 0,
            3 => 3 << rng.below(12),
            _ => {
                let top = if rng.chance(1, 8) { 21 } else { 9 };
                1usize << rng.below(top)
            }
        };
        let def = rng.below(5) as i64;
        // a payload whose equality is not even reflexive (NaN) must be storable like any other
        {
            let r = std::panic::catch_unwind(|| {
                let mut ft: CacheTable<f64> = CacheTable::new(4, 0.0);
                ft.add(6, f64::NAN);
                ft.add(2, 1.5);
                ft.add(9, f64::NAN);
                (ft.get(6).is_none(), ft.get(2) == Some(1.5), ft.get(9).map(|x| x.is_nan()).unwrap_or(false))
            });
            writeln!(out, "{}", json!({"op": "nan", "panicked": r.is_err(), "ok": r.map(|x| x.0 && x.1 && x.2).unwrap_or(false)})).unwrap();
            n += 1;
        }
        let made = std::panic::catch_unwind(|| CacheTable::<CV>::new(size, CV { k: def, a: 0 }));
        writeln!(out, "{}", json!({"op": "new", "n": size, "def": def, "panicked": made.is_err()})).unwrap();
        n += 1;
        let mut t = match made {
            Ok(t) => t,
            Err(_) => continue,
        };
        let shift = (size as u64).trailing_zeros();
        // a small pool of hashes, so that slots collide under different hashes; includes hash 0 and all-ones.  The
        // candidates are SHAPED for the usual slot functions (low bits; both halves folded), but which of them share a
        // slot is never computed here: it is observed on a scratch table (SlotProber) and logged as the class id
        let mut pool: Vec<u64> = vec![0, u64::MAX, 1, size as u64, (size as u64).wrapping_sub(1)];
        for _ in 0..(4 + rng.below(12)) {
            let idx = rng.next() & (size as u64 - 1);
            for _ in 0..(1 + rng.below(3)) {
                let tag = match rng.below(4) { 0 => 0, 1 => rng.next() & 3, _ => rng.next() };
                pool.push(if shift >= 64 { idx } else { (tag.wrapping_shl(shift)) | idx });
            }
        }
        // hashes that differ from pool members in the upper half of the word only, or in the top bit only
        for i in 0..pool.len().min(8) {
            pool.push(pool[i] ^ (1u64 << 32));
            pool.push(pool[i] ^ (1u64 << 63));
            pool.push(pool[i] ^ 0xFFFF_FFFF_0000_0000);
            // the same low bits, and the same value when both halves of the word are folded together
            for x in [1u64 << 31, 1u64 << 24, 0x00FF_0000u64].iter() {
                if (*x & (size as u64).wrapping_sub(1)) == 0 {
                    pool.push(pool[i] ^ (x << 32) ^ x);
                }
            }
        }
        // small tables: a few arbitrary hashes as well (any slot function makes them collide by pigeonhole)
        if size <= 64 {
            for _ in 0..(2 * size + 4) {
                pool.push(rng.next());
            }
        }
        let probed = std::panic::catch_unwind(|| {
            let mut pr = SlotProber::new(size);
            let cls: Vec<usize> = pool.iter().map(|h| pr.class_of(*h)).collect();
            (pr, cls)
        });
        let (mut prober, pool_class) = match probed {
            Ok(x) => x,
            Err(_) => {
                writeln!(out, "{}", json!({"op": "probe", "n": size, "panicked": true, "classes": 0})).unwrap();
                n += 1;
                continue;
            }
        };
        writeln!(out, "{}", json!({"op": "probe", "n": size, "panicked": false, "classes": prober.reps.len(), "hashes": pool.len()})).unwrap();
        n += 1;
        let ops = 50 + rng.below(400);
        for _ in 0..ops {
            if n >= events {
                return;
            }
            let (h, idx) = if rng.chance(9, 10) {
                let j = rng.below(pool.len());
                (pool[j], pool_class[j])
            } else {
                let h = rng.next();
                let c = match std::panic::catch_unwind(std::panic::AssertUnwindSafe(|| prober.class_of(h))) {
                    Ok(c) => c,
                    Err(_) => {
                        writeln!(out, "{}", json!({"op": "probe", "n": size, "panicked": true, "classes": 0})).unwrap();
                        return;
                    }
                };
                (h, c)
            };
            let tag = h;      // the hash itself identifies it; idx is the observed slot class
            let v = rng.below(7) as i64;
            stamp += 1;
            let val = CV { k: v, a: stamp };
            std::fs::write(progress, format!("size={} hash={}", size, h)).ok();
            match rng.below(3) {
                0 => {
                    t.add(h, val);
                    writeln!(out, "{}", json!({"op": "add", "tag": tag.to_string(), "idx": idx, "v": v, "aux": stamp})).unwrap();
                }
                1 => {
                    let x = rng.below(7) as i64;
                    let (pk, px) = [("always", 0), ("never", 0), ("eq", x), ("lt", x), ("ge", x), ("panic", 0)][rng.below(6)];
                    if pk == "panic" {
                        // a predicate that unwinds has not said "yes": the slot must be left as it was
                        let seen = std::cell::Cell::new((-1i64, -1i64));
                        let r = std::panic::catch_unwind(std::panic::AssertUnwindSafe(|| {
                            t.replace_if(h, val, |c| {
                                seen.set((c.k, c.a));
                                panic!("predicate gives up")
                            })
                        }));
                        writeln!(out, "{}", json!({"op": "replace_if", "tag": tag.to_string(), "idx": idx, "v": v, "aux": stamp, "pk": "panic", "px": 0,
                                                  "called_with": seen.get().0, "called_aux": seen.get().1, "unwound": r.is_err()})).unwrap();
                        std::fs::remove_file(progress).ok();
                        n += 1;
                        continue;
                    }
                    let seen = std::cell::Cell::new((-1i64, -1i64));
                    t.replace_if(h, val, |c| {
                        seen.set((c.k, c.a));
                        match pk {
                            "always" => true,
                            "never" => false,
                            "eq" => c.k == px,
                            "lt" => c.k < px,
                            _ => c.k >= px,
                        }
                    });
                    writeln!(out, "{}", json!({"op": "replace_if", "tag": tag.to_string(), "idx": idx, "v": v, "aux": stamp, "pk": pk, "px": px,
                                              "called_with": seen.get().0, "called_aux": seen.get().1})).unwrap();
                }
                _ => {
                    let g = t.get(h);
                    writeln!(out, "{}", json!({"op": "get", "tag": tag.to_string(), "idx": idx, "some": g.is_some(), "v": g.map(|x| x.k).unwrap_or(-1), "aux": g.map(|x| x.a).unwrap_or(-1)})).unwrap();
                }
            }
            std::fs::remove_file(progress).ok();
            n += 1;
        }
    }
}

// ------------------------------------------------------------------ BitBoard as a set of squares (C20)
fn bits_chunk(rng: &mut Rng, events: usize, out: &mut dyn Write) {
    let mut n = 0;
    let mut structured: Vec<u64> = vec![0, u64::MAX, 0xFF, 0xFF00_0000_0000_0000, 0x0101_0101_0101_0101, 0x8080_8080_8080_8080,
        0x8040_2010_0804_0201, 0x0102_0408_1020_4080, 0x5555_5555_5555_5555, 0xAAAA_AAAA_AAAA_AAAA, 1, 1 << 63, 0x8000_0000_0000_0001];
    for i in 0..8 {
        structured.push(0xFFu64 << (8 * i));
        structured.push(0x0101_0101_0101_0101u64 << i);
    }
    let pick = |rng: &mut Rng, structured: &Vec<u64>| -> u64 {
        match rng.below(6) {
            0 => structured[rng.below(structured.len())],
            1 => rng.next() & rng.next() & rng.next(),
            2 => rng.next() | rng.next() | rng.next(),
            3 => 1u64 << rng.below(64),
            4 => structured[rng.below(structured.len())] ^ (1u64 << rng.below(64)),
            _ => rng.next(),
        }
    };
    // all 64 single squares exhaustively, first
    for i in 0..64u8 {
        let sq = Square::new(i);
        let b = BitBoard::from_square(sq);
        let via_set = BitBoard::set(sq.get_rank(), sq.get_file());
        writeln!(out, "{}", json!({"op": "from_square", "sq": i, "ret": bb_squares(b), "back": b.to_square().to_index(), "set_rf": via_set.to_square().to_index()})).unwrap();
        n += 1;
    }
    while n < events {
        let x = pick(rng, &structured);
        let y = pick(rng, &structured);
        let a = BitBoard::new(x);
        let b = BitBoard::new(y);
        let la = bb_squares(a);
        let lb = bb_squares(b);
        if rng.chance(1, 5) {
            // provided Iterator methods (nth / skip / step_by / last / max / min / count / collect)
            let n_arg = match rng.below(4) { 0 => a.popcnt() as usize, 1 => a.popcnt() as usize + 1, 2 => 0, _ => rng.below(66) };
            let one = |o: Option<Square>| -> Vec<usize> { o.map(|s| vec![s.to_index()]).unwrap_or_default() };
            let ev = match rng.below(10) {
                8 => {
                    // internal iteration: fold / for_each visit the same squares in the same order
                    let folded = a.fold(Vec::new(), |mut acc, s| {
                        acc.push(s.to_index());
                        acc
                    });
                    json!({"op": "adaptor", "what": "collect", "a": la, "n": 0, "ret": folded})
                }
                9 => {
                    let mut seen = vec![];
                    a.for_each(|s| seen.push(s.to_index()));
                    json!({"op": "adaptor", "what": "collect", "a": la, "n": 0, "ret": seen})
                }
                0 => {
                    let mut it = a;
                    let r = it.nth(n_arg);
                    json!({"op": "adaptor", "what": "nth", "a": la, "n": n_arg, "ret": one(r), "after": bb_squares(it)})
                }
                1 => json!({"op": "adaptor", "what": "last", "a": la, "n": 0, "ret": one(a.last())}),
                2 => json!({"op": "adaptor", "what": "max", "a": la, "n": 0, "ret": one(a.max())}),
                3 => json!({"op": "adaptor", "what": "min", "a": la, "n": 0, "ret": one(a.min())}),
                4 => json!({"op": "adaptor", "what": "count", "a": la, "n": 0, "ret": [a.count()]}),
                5 => json!({"op": "adaptor", "what": "skip", "a": la, "n": n_arg, "ret": a.skip(n_arg).map(|s| s.to_index()).collect::<Vec<_>>()}),
                6 => {
                    let k = 1 + n_arg % 9;
                    json!({"op": "adaptor", "what": "step_by", "a": la, "n": k, "ret": a.step_by(k).map(|s| s.to_index()).collect::<Vec<_>>()})
                }
                _ => json!({"op": "adaptor", "what": "collect", "a": la, "n": 0, "ret": a.collect::<Vec<Square>>().iter().map(|s| s.to_index()).collect::<Vec<_>>()}),
            };
            writeln!(out, "{}", ev).unwrap();
            n += 1;
            continue;
        }
        match rng.below(9) {
            0 => {
                let mut f5 = a;
                f5 &= b;
                let mut f6 = a;
                f6 &= &b;
                writeln!(out, "{}", json!({"op": "and", "a": la, "b": lb, "forms": [bb_squares(a & b), bb_squares(&a & &b), bb_squares(a & &b), bb_squares(&a & b), bb_squares(f5), bb_squares(f6)]})).unwrap();
            }
            1 => {
                let mut f5 = a;
                f5 |= b;
                let mut f6 = a;
                f6 |= &b;
                writeln!(out, "{}", json!({"op": "or", "a": la, "b": lb, "forms": [bb_squares(a | b), bb_squares(&a | &b), bb_squares(a | &b), bb_squares(&a | b), bb_squares(f5), bb_squares(f6)]})).unwrap();
            }
            2 => {
                let mut f5 = a;
                f5 ^= b;
                let mut f6 = a;
                f6 ^= &b;
                writeln!(out, "{}", json!({"op": "xor", "a": la, "b": lb, "forms": [bb_squares(a ^ b), bb_squares(&a ^ &b), bb_squares(a ^ &b), bb_squares(&a ^ b), bb_squares(f5), bb_squares(f6)]})).unwrap();
            }
            3 => writeln!(out, "{}", json!({"op": "not", "a": la, "forms": [bb_squares(!a), bb_squares(!&a)]})).unwrap(),
            4 => writeln!(out, "{}", json!({"op": "popcnt", "a": la, "ret": a.popcnt()})).unwrap(),
            5 => writeln!(out, "{}", json!({"op": "to_square", "a": la, "ret": a.to_square().to_index()})).unwrap(),
            6 => writeln!(out, "{}", json!({"op": "reverse_colors", "a": la, "ret": bb_squares(a.reverse_colors())})).unwrap(),
            7 => {
                let bits: Vec<u8> = (0..64u8).filter(|i| (x >> i) & 1 == 1).collect();
                writeln!(out, "{}", json!({"op": "new", "bits": bits, "ret": bb_squares(BitBoard::new(x))})).unwrap();
            }
            _ => {
                writeln!(out, "{}", json!({"op": "iter_start", "a": (0..64u8).filter(|i| (x >> i) & 1 == 1).collect::<Vec<u8>>()})).unwrap();
                n += 1;
                let mut it = a;
                while let Some(s) = it.next() {
                    writeln!(out, "{}", json!({"op": "iter_next", "ret": s.to_index()})).unwrap();
                    n += 1;
                }
                writeln!(out, "{}", json!({"op": "iter_end"})).unwrap();
            }
        }
        n += 1;
    }
}

// ------------------------------------------------------------------ position miner
// Random placements are cheap; positions in which the outcome hangs on ONE special move are rare.  The miner draws
// millions of placements, keeps those the library itself shows to be "tight" (at most two legal moves, or none)
// and in which something special is going on (en-passant state, a pinned man, a promotion, castling rights, a
// check), and logs them as Reset events.  It proposes; the specification judges (TraceBoard).
fn mine_chunk(rng: &mut Rng, events: usize, out: &mut dyn Write) {
    let mut n = 0;
    let mut tries: u64 = 0;
    let mut quota = [0usize; 14];
    let mut nullq = 0usize;
    let mut specq = [0usize; 4];
    let mut dblq = 0usize;
    let kinds_w = b"PPPNBRQ";
    let kinds_b = b"pppnbrq";
    // the common classes fill their quotas within a few thousand tries; the rare ones (a double push or castling that mates)
    // need millions: keep trying for a fixed budget, the common classes being capped, and let the rare ones overshoot a little
    let min_tries: u64 = 3_000_000;
    let hard_cap = 2 * events;
    while (n < events || tries < min_tries) && n < hard_cap && tries < 40_000_000 {
        tries += 1;
        let mut sq = [b'.'; 64];
        // kings: one of them often in a corner or on an edge
        let wk = if rng.chance(1, 2) { [0usize, 7, 56, 63, 3, 4, 60, 24][rng.below(8)] } else { rng.below(64) };
        let mut bk = rng.below(64);
        while bk == wk || ((bk as i32 / 8 - wk as i32 / 8).abs() <= 1 && (bk as i32 % 8 - wk as i32 % 8).abs() <= 1) {
            bk = rng.below(64);
        }
        sq[wk] = b'K';
        sq[bk] = b'k';
        let men = 2 + rng.below(6);
        for _ in 0..men {
            let i = rng.below(64);
            if sq[i] != b'.' {
                continue;
            }
            let l = if rng.chance(1, 2) { kinds_w[rng.below(7)] } else { kinds_b[rng.below(7)] };
            if (l == b'P' || l == b'p') && (i < 8 || i >= 56) {
                continue;
            }
            sq[i] = l;
        }
        let mut stm = if rng.chance(1, 2) { b'w' } else { b'b' };
        // template (one try in six): the side to move has its king on the rank of a just-pushed enemy pawn, its own pawn
        // beside that pawn and an enemy rook or queen further along the rank - the en-passant capture would open the rank
        if rng.chance(1, 6) {
            let white_to_move = rng.chance(1, 2);
            stm = if white_to_move { b'w' } else { b'b' };
            let rank = if white_to_move { 4usize } else { 3usize };
            let (own_k, own_p, en_p, en_r) = if white_to_move { (b'K', b'P', b'p', [b'r', b'q'][rng.below(2)]) } else { (b'k', b'p', b'P', [b'R', b'Q'][rng.below(2)]) };
            // clear that rank and the two ranks behind the pushed pawn, remove the old king of the side to move
            for i in 0..64 {
                if sq[i] == own_k || i / 8 == rank {
                    sq[i] = b'.';
                }
            }
            let kf = if rng.chance(1, 2) { 0usize } else { rng.below(3) };
            let pf = kf + 1 + rng.below(3);
            let ef = if rng.chance(1, 2) { pf + 1 } else { pf - 1 };
            let rf = (pf.max(ef) + 1 + rng.below(3)).min(7);
            if ef > kf && ef != pf && rf > pf.max(ef) {
                let flip = rng.chance(1, 2);
                let m = |f: usize| if flip { 7 - f } else { f };
                sq[rank * 8 + m(kf)] = own_k;
                sq[rank * 8 + m(pf)] = own_p;
                sq[rank * 8 + m(ef)] = en_p;
                sq[rank * 8 + m(rf)] = en_r;
                let behind1 = if white_to_move { (rank + 1) * 8 + m(ef) } else { (rank - 1) * 8 + m(ef) };
                let behind2 = if white_to_move { (rank + 2) * 8 + m(ef) } else { (rank - 2) * 8 + m(ef) };
                sq[behind1] = b'.';
                sq[behind2] = b'.';
            }
        }
        // template (one try in eight): an enemy rook or queen behind the just-pushed pawn on its file, the king of the side
        // to move further down that file: the en-passant capture lands on the file and keeps it closed
        if rng.chance(1, 8) {
            let white_to_move = rng.chance(1, 2);
            stm = if white_to_move { b'w' } else { b'b' };
            let f = 1 + rng.below(6);
            let (own_k, own_p, en_p, en_r) = if white_to_move { (b'K', b'P', b'p', [b'r', b'q'][rng.below(2)]) } else { (b'k', b'p', b'P', [b'R', b'Q'][rng.below(2)]) };
            for i in 0..64 {
                if sq[i] == own_k || i % 8 == f {
                    sq[i] = b'.';
                }
            }
            let cf = if rng.chance(1, 2) { f + 1 } else { f - 1 };
            if white_to_move {
                sq[4 * 8 + f] = en_p;      // pushed pawn on its fourth rank (rank 5)
                sq[7 * 8 + f] = en_r;      // heavy piece behind it
                sq[4 * 8 + cf] = own_p;
                sq[(rng.below(3)) * 8 + f] = own_k;
            } else {
                sq[3 * 8 + f] = en_p;
                sq[f] = en_r;
                sq[3 * 8 + cf] = own_p;
                sq[(5 + rng.below(3)) * 8 + f] = own_k;
            }
        }
        // template (one try in eight): the capturing pawn is pinned on the very diagonal it captures along - own king behind
        // it, the en-passant target square in front of it, an enemy bishop or queen further along: the capture is legal
        if tries % 8 == 3 {
            let white_to_move = rng.chance(1, 2);
            stm = if white_to_move { b'w' } else { b'b' };
            let (own_k, own_p, en_p, en_b) = if white_to_move { (b'K', b'P', b'p', [b'b', b'q'][rng.below(2)]) } else { (b'k', b'p', b'P', [b'B', b'Q'][rng.below(2)]) };
            let r: i32 = if white_to_move { 4 } else { 3 };          // rank of the two pawns
            let dir: i32 = if white_to_move { 1 } else { -1 };
            let f = rng.below(8) as i32;                              // file of the pushed pawn
            let cf = if rng.chance(1, 2) { f + 1 } else { f - 1 };   // file of the capturer
            let (sx, sy) = (f - cf, dir);                              // one step from the capturer to the target square
            let kk = 1 + rng.below(3) as i32;
            let jj = 1 + rng.below(3) as i32;
            let (kx, ky) = (cf - kk * sx, r - kk * sy);
            let (bx, by) = (f + jj * sx, r + dir + jj * sy);
            let on = |x: i32, y: i32| x >= 0 && x < 8 && y >= 0 && y < 8;
            if cf >= 0 && cf < 8 && on(kx, ky) && on(bx, by) {
                for i in 0..64 {
                    if sq[i] == own_k {
                        sq[i] = b'.';
                    }
                }
                // clear the whole diagonal between king and slider, the pushed pawn's two squares behind it
                let mut x = kx;
                let mut y = ky;
                while (x, y) != (bx, by) {
                    if sq[(y * 8 + x) as usize] != b'K' && sq[(y * 8 + x) as usize] != b'k' {
                        sq[(y * 8 + x) as usize] = b'.';
                    }
                    x += sx;
                    y += sy;
                }
                let free = |i: usize, sq: &[u8; 64]| sq[i] != b'K' && sq[i] != b'k';
                let pushed = (r * 8 + f) as usize;
                let b1 = ((r + dir) * 8 + f) as usize;
                let b2 = ((r + 2 * dir) * 8 + f) as usize;
                if free(pushed, &sq) && free(b1, &sq) && free(b2, &sq) && free((ky * 8 + kx) as usize, &sq) && free((by * 8 + bx) as usize, &sq) && free((r * 8 + cf) as usize, &sq) {
                    sq[pushed] = en_p;
                    sq[b1] = b'.';
                    sq[b2] = b'.';
                    sq[(r * 8 + cf) as usize] = own_p;
                    sq[(ky * 8 + kx) as usize] = own_k;
                    sq[(by * 8 + bx) as usize] = en_b;
                }
            }
        }
        // template (one try in sixteen): a just-pushed rook pawn and an enemy pawn on the opposite edge file, same rank or one off
        if tries % 16 == 5 {
            let f = if rng.chance(1, 2) { 0usize } else { 7 };
            let (rank, me, them, dir): (usize, u8, u8, i32) = if stm == b'b' { (3, b'P', b'p', -8) } else { (4, b'p', b'P', 8) };
            let s = rank * 8 + f;
            let o = ((rank as i32 + [0, 1, -1][rng.below(3)]) as usize) * 8 + 7 - f;
            let free = |i: usize, sq: &[u8; 64]| sq[i] != b'K' && sq[i] != b'k';
            let b1 = (s as i32 + dir) as usize;
            let b2 = (s as i32 + 2 * dir) as usize;
            if free(s, &sq) && free(o, &sq) && free(b1, &sq) && free(b2, &sq) {
                sq[s] = me;
                sq[o] = them;
                sq[b1] = b'.';
                sq[b2] = b'.';
                // no real neighbour
                let nb = if f == 0 { s + 1 } else { s - 1 };
                if sq[nb] == them {
                    sq[nb] = b'.';
                }
            }
        }
        // en-passant state where a double push is plausible: pushed pawn on its fourth rank, the two squares behind it
        // empty, an enemy pawn beside it
        let mut epfile: i64 = -1;
        if rng.chance(1, 2) {
            let (rank, me, them, dir): (usize, u8, u8, i32) = if stm == b'b' { (3, b'P', b'p', -8) } else { (4, b'p', b'P', 8) };
            for f in 0..8usize {
                let s = rank * 8 + f;
                if sq[s] == me
                    && sq[(s as i32 + dir) as usize] == b'.'
                    && sq[(s as i32 + 2 * dir) as usize] == b'.'
                    && ((f > 0 && sq[s - 1] == them) || (f < 7 && sq[s + 1] == them)
                        // a rook pawn: now and then name the square although the only enemy pawn near it stands across the
                        // board edge (same rank or one off) - a text a standard writer produces; nobody can capture
                        || ((f == 0 || f == 7) && tries % 3 == 0
                            && (sq[rank * 8 + 7 - f] == them || sq[(rank + 1) * 8 + 7 - f] == them || sq[(rank - 1) * 8 + 7 - f] == them)))
                {
                    epfile = f as i64;
                    break;
                }
            }
        }
        // castling rights when backed
        let mut cr = 0u8;
        if sq[4] == b'K' {
            if sq[7] == b'R' && rng.chance(1, 2) {
                cr |= 1;
            }
            if sq[0] == b'R' && rng.chance(1, 2) {
                cr |= 2;
            }
        }
        if sq[60] == b'k' {
            if sq[63] == b'r' && rng.chance(1, 2) {
                cr |= 4;
            }
            if sq[56] == b'r' && rng.chance(1, 2) {
                cr |= 8;
            }
        }
        let bb = builder_of(&sq, stm, cr, epfile);
        let b = match Board::try_from(&bb) {
            Ok(b) => b,
            Err(_) => continue,
        };
        // one try in four: a SPECIAL move (double push, en-passant capture, castling, promotion) whose result - judged on the
        // position built afresh from its text, not on the board the move maker produced - leaves at most one legal move:
        // mates and stalemates delivered by exactly the moves whose bookkeeping is hand-written in the move makers
        let sk = (tries / 4) % 4;     // which kind of special move this try looks for (each kind has its own quota)
        if tries % 4 == 2 && specq[sk as usize] < (events / 24).max(2) {
            let ms: Vec<ChessMove> = MoveGen::new_legal(&b).collect();
            let hit = ms.iter().cloned().find(|m| {
                let pc = b.piece_on(m.get_source());
                let d = (m.get_source().to_index() as i32 - m.get_dest().to_index() as i32).abs();
                let special = match sk {
                    0 => pc == Some(Piece::Pawn) && d == 16,
                    1 => pc == Some(Piece::Pawn) && d != 8 && d != 16 && b.piece_on(m.get_dest()).is_none(),
                    2 => pc == Some(Piece::King) && d == 2,
                    _ => m.get_promotion().is_some(),
                };
                if !special {
                    return false;
                }
                let nb = b.make_move_new(*m);
                match Board::from_str(&format!("{}", nb)) {
                    Ok(fresh) => MoveGen::new_legal(&fresh).len() <= 1,
                    Err(_) => false,
                }
            });
            if let Some(m) = hit {
                specq[sk as usize] += 1;
                let p = proj(&b);
                let text = format!("{} 0 1", Pos { sq: p.sq, stm: p.stm, cr: p.cr, ep: if epfile >= 0 { (if stm == b'w' { 40 } else { 16 }) + epfile as i8 } else { -1 } }.describe());
                let mut ev = Map::new();
                ev.insert("event".into(), json!("Reset"));
                ev.insert("text".into(), json!(text));
                ev.insert("mined".into(), json!(true));
                observe(&b, &mut ev);
                writeln!(out, "{}", Value::Object(ev)).unwrap();
                let src = b;
                let n1 = src.make_move_new(m);
                let mut n2 = b;
                src.make_move(m, &mut n2);
                let mut ev = Map::new();
                ev.insert("event".into(), json!("Move"));
                ev.insert("m".into(), mv_json(m));
                ev.insert("eq_other_entry".into(), json!(n1 == n2));
                ev.insert("src_unchanged".into(), json!(src == b));
                observe(if (specq[0] + specq[1] + specq[2] + specq[3]) % 2 == 0 { &n1 } else { &n2 }, &mut ev);
                writeln!(out, "{}", Value::Object(ev)).unwrap();
                n += 2;
                continue;
            }
        }
        // one try in four: look for a move INTO a double check by sliders that also leaves an enemy man pinned
        if tries % 4 == 0 && quota[13] < (events / 10).max(1) {
            let ms: Vec<ChessMove> = MoveGen::new_legal(&b).collect();
            let hit = ms.iter().cloned().find(|m| {
                let nb = b.make_move_new(*m);
                nb.checkers().popcnt() >= 2 && (*nb.pinned() & *nb.color_combined(nb.side_to_move())) != EMPTY
            });
            if let Some(m) = hit {
                quota[13] += 1;
                let p = proj(&b);
                let text = format!("{} 0 1", Pos { sq: p.sq, stm: p.stm, cr: p.cr, ep: if epfile >= 0 { (if stm == b'w' { 40 } else { 16 }) + epfile as i8 } else { -1 } }.describe());
                let mut ev = Map::new();
                ev.insert("event".into(), json!("Reset"));
                ev.insert("text".into(), json!(text));
                ev.insert("mined".into(), json!(true));
                observe(&b, &mut ev);
                writeln!(out, "{}", Value::Object(ev)).unwrap();
                let src = b;
                let n1 = src.make_move_new(m);
                let mut n2 = b;
                src.make_move(m, &mut n2);
                let mut ev = Map::new();
                ev.insert("event".into(), json!("Move"));
                ev.insert("m".into(), mv_json(m));
                ev.insert("eq_other_entry".into(), json!(n1 == n2));
                ev.insert("src_unchanged".into(), json!(src == b));
                // the in-place result is the one observed (the other entry point is compared through eq_other_entry)
                observe(&n2, &mut ev);
                writeln!(out, "{}", Value::Object(ev)).unwrap();
                n += 2;
                continue;
            }
        }
        // one try in three: is the position AFTER PASSING the turn a tight one?  (derived state rebuilt by null_move)
        if tries % 3 == 1 && quota[13] + nullq < (events / 5).max(2) {
            if let Some(nb) = b.null_move() {
                let k = MoveGen::new_legal(&nb).len();
                let own_n = *nb.color_combined(nb.side_to_move());
                if k <= 2 && ((*nb.pinned() & own_n) != EMPTY || (*b.pinned() != EMPTY) || k == 0) {
                    nullq += 1;
                    let p = proj(&b);
                    let text = format!("{} 0 1", Pos { sq: p.sq, stm: p.stm, cr: p.cr, ep: if epfile >= 0 { (if stm == b'w' { 40 } else { 16 }) + epfile as i8 } else { -1 } }.describe());
                    let mut ev = Map::new();
                    ev.insert("event".into(), json!("Reset"));
                    ev.insert("text".into(), json!(text));
                    ev.insert("mined".into(), json!(true));
                    observe(&b, &mut ev);
                    writeln!(out, "{}", Value::Object(ev)).unwrap();
                    let mut ev = Map::new();
                    ev.insert("event".into(), json!("Null"));
                    ev.insert("ok".into(), json!(true));
                    ev.insert("src_unchanged".into(), json!(true));
                    observe(&nb, &mut ev);
                    writeln!(out, "{}", Value::Object(ev)).unwrap();
                    n += 2;
                    continue;
                }
            }
        }
        let nmoves = MoveGen::new_legal(&b).len();
        // once the chunk is full only the rare classes are still looked for: the special-move parents above, and below the
        // positions with en-passant state or a pinned man in which the side to move has NO move or is in check
        if n >= events && !((b.en_passant().is_some() || (*b.pinned() & *b.color_combined(b.side_to_move())) != EMPTY) && (nmoves == 0 || *b.checkers() != EMPTY)) {
            continue;
        }
        // attackers of the king of the side to move, counted through the attack lookups (not through checkers()): positions
        // SET UP in a double check are kept whatever the library believes about them
        let attackers = {
            let us = b.side_to_move();
            let k = b.king_square(us);
            let them = *b.color_combined(!us);
            let occ = *b.combined();
            ((get_knight_moves(k) & *b.pieces(Piece::Knight))
                | (get_rook_moves(k, occ) & (*b.pieces(Piece::Rook) | *b.pieces(Piece::Queen)))
                | (get_bishop_moves(k, occ) & (*b.pieces(Piece::Bishop) | *b.pieces(Piece::Queen)))
                | get_pawn_attacks(k, us, *b.pieces(Piece::Pawn)))
                & them
        };
        if attackers.popcnt() >= 2 && dblq < (events / 12).max(2) {
            dblq += 1;
            let p = proj(&b);
            let text = format!("{} 0 1", Pos { sq: p.sq, stm: p.stm, cr: p.cr, ep: if epfile >= 0 { (if stm == b'w' { 40 } else { 16 }) + epfile as i8 } else { -1 } }.describe());
            let mut ev = Map::new();
            ev.insert("event".into(), json!("Reset"));
            ev.insert("text".into(), json!(text));
            ev.insert("mined".into(), json!(true));
            observe(&b, &mut ev);
            writeln!(out, "{}", Value::Object(ev)).unwrap();
            n += 1;
            continue;
        }
        let double_with_pin = b.checkers().popcnt() >= 2 && (*b.pinned() & *b.color_combined(b.side_to_move())) != EMPTY;
        if nmoves > 2 && !double_with_pin {
            continue;
        }
        let own = *b.color_combined(b.side_to_move());
        let seventh = (b.pieces(Piece::Pawn) & own & get_rank(b.side_to_move().to_seventh_rank())) != EMPTY;
        // quota per class, so that the cheap classes (in check, few moves) do not crowd out the rare ones
        let class = if double_with_pin {
            12
        } else if b.en_passant().is_some() {
            if *b.checkers() != EMPTY { 0 } else if nmoves == 0 { 1 } else { 2 }
        } else if (*b.pinned() & own) != EMPTY {
            if *b.checkers() != EMPTY { 3 } else if nmoves == 0 { 4 } else { 5 }
        } else if seventh {
            6
        } else if cr != 0 {
            7
        } else if *b.checkers() != EMPTY {
            if nmoves == 0 { 8 } else { 9 }
        } else if nmoves == 0 {
            10
        } else {
            11
        };
        let cap = [events / 8, events / 8, events / 8, events / 10, events / 8, events / 8, events / 10, events / 12, events / 20, events / 20, events / 12, events / 20, events / 10][class].max(1);
        if quota[class] >= cap {
            continue;
        }
        quota[class] += 1;
        let p = proj(&b);
        let text = format!("{} 0 1", Pos { sq: p.sq, stm: p.stm, cr: p.cr, ep: if epfile >= 0 { (if stm == b'w' { 40 } else { 16 }) + epfile as i8 } else { -1 } }.describe());
        let mut ev = Map::new();
        ev.insert("event".into(), json!("Reset"));
        ev.insert("text".into(), json!(text));
        ev.insert("mined".into(), json!(true));
        observe(&b, &mut ev);
        writeln!(out, "{}", Value::Object(ev)).unwrap();
        n += 1;
    }
}

fn main() {
    let args: Vec<String> = std::env::args().collect();
    if args.len() < 2 {
        eprintln!("usage: record <mode> ...");
        std::process::exit(2);
    }
    let mode = args[1].clone();
    let mut seed = 1u64;
    let mut chunks = 1usize;
    let mut events = 1000usize;
    let mut outdir = ".".to_string();
    let mut i = 2;
    while i < args.len() {
        match args[i].as_str() {
            "--seed" => {
                seed = args[i + 1].parse().unwrap();
                i += 1;
            }
            "--chunks" => {
                chunks = args[i + 1].parse().unwrap();
                i += 1;
            }
            "--events" => {
                events = args[i + 1].parse().unwrap();
                i += 1;
            }
            "--outdir" => {
                outdir = args[i + 1].clone();
                i += 1;
            }
            x => {
                eprintln!("unknown arg {}", x);
                std::process::exit(2);
            }
        }
        i += 1;
    }
    if std::env::var("VERIF_PANIC_MSG").is_err() {
        std::panic::set_hook(Box::new(|_| {}));
    }
    std::fs::create_dir_all(&outdir).unwrap();
    // chunks are independent: generate them in parallel
    let mode_ref = &mode;
    let outdir_ref = &outdir;
    std::thread::scope(|sc| {
        for c in 0..chunks {
            sc.spawn(move || {
                let mode = mode_ref.clone();
                let outdir = outdir_ref.clone();
                let mut rng = Rng(seed.wrapping_mul(1_000_003).wrapping_add(c as u64 * 7919));
                let path = format!("{}/{}-{}.ndjson", outdir, mode, c);
                let mut f = std::io::BufWriter::new(std::fs::File::create(&path).unwrap());
                match mode.as_str() {
                    "board" => board_chunk(&mut rng, events, &mut f),
                    "iter" => iter_chunk(&mut rng, events, &mut f),
                    "text" => text_chunk(&mut rng, events, &mut f),
                    "bits" => bits_chunk(&mut rng, events, &mut f),
                    "mine" => mine_chunk(&mut rng, events, &mut f),
                    "cache" => {
                        let progress = format!("{}/{}-{}.progress", outdir, mode, c);
                        cache_chunk(&mut rng, events, &mut f, &progress);
                    }
                    "validate" => {
                        let progress = format!("{}/{}-{}.progress", outdir, mode, c);
                        validate_chunk(&mut rng, events, &mut f, &progress);
                    }
                    "game" => game_chunk(&mut rng, events, &mut f, false),
                    "claims" => game_chunk(&mut rng, events, &mut f, true),
                    x => {
                        eprintln!("unknown mode {}", x);
                        std::process::exit(2);
                    }
                }
            });
        }
    });
}
