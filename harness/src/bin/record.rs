//! Direction B (implementation -> spec): drive the real library and log one
//! NDJSON event per public call (arguments, result and the full projected
//! state) for TLC to validate against the trace specifications.
//!
//! record board --seed S --chunks N --events E --outdir DIR
//!
//! The driver never judges anything; it only logs.  A panic inside the
//! library is logged as an event of its own (`"panic": true`).

use chess::*;
use chess_verif_harness::*;
use serde_json::{json, Map, Value};
use std::hash::{Hash, Hasher};
use std::io::Write;
use std::str::FromStr;

struct Rng(u64);
impl Rng {
    fn next(&mut self) -> u64 {
        self.0 = self.0.wrapping_add(0x9E3779B97F4A7C15);
        let mut z = self.0;
        z = (z ^ (z >> 30)).wrapping_mul(0xBF58476D1CE4E5B9);
        z = (z ^ (z >> 27)).wrapping_mul(0x94D049BB133111EB);
        z ^ (z >> 31)
    }
    fn below(&mut self, n: usize) -> usize {
        (self.next() % (n as u64)) as usize
    }
    fn chance(&mut self, num: u64, den: u64) -> bool {
        self.next() % den < num
    }
}

struct Capture(Vec<u8>);
impl Hasher for Capture {
    fn finish(&self) -> u64 {
        0
    }
    fn write(&mut self, bytes: &[u8]) {
        self.0.extend_from_slice(bytes);
    }
}
fn std_hash_hex(b: &Board) -> String {
    let mut c = Capture(vec![]);
    b.hash(&mut c);
    c.0.iter().map(|x| format!("{:02x}", x)).collect()
}

pub const START_FENS: [&str; 21] = [
    "rnbqkbnr/1ppppppp/8/pP6/8/8/P1PPPPPP/RNBQKBNR w KQkq a6 0 3",
    "rnbqkbnr/pppppppp/8/8/8/8/PPPPPPPP/RNBQKBNR w KQkq - 0 1",
    "r3k2r/p1ppqpb1/bn2pnp1/3PN3/1p2P3/2N2Q1p/PPPBBPPP/R3K2R w KQkq - 0 1",
    "8/2p5/3p4/KP5r/1R3p1k/8/4P1P1/8 w - - 0 1",
    "r3k2r/Pppp1ppp/1b3nbN/nP6/BBP1P3/q4N2/Pp1P2PP/R2Q1RK1 w kq - 0 1",
    "rnbq1k1r/pp1Pbppp/2p5/8/2B5/8/PPP1NnPP/RNBQK2R w KQ - 1 8",
    "r4rk1/1pp1qppp/p1np1n2/2b1p1B1/2B1P1b1/P1NP1N2/1PP1QPPP/R4RK1 w - - 0 10",
    "r3k2r/pppppppp/8/8/8/8/PPPPPPPP/R3K2R w KQkq - 0 1",
    "n1n5/PPPk4/8/8/8/8/4Kppp/5N1N b - - 0 1",
    "rnbqkb1r/pp1p1ppp/4pn2/2pP4/4P3/8/PPP2PPP/RNBQKBNR w KQkq c6 0 4",
    "4k3/8/8/2KPp2r/8/8/8/8 w - e6 0 1",
    "8/8/8/8/1kpP3R/8/8/4K3 b - d3 0 1",
    "r1bqkbnr/pppp1ppp/2n5/1B2p3/4P3/5N2/PPPP1PPP/RNBQK2R b KQkq - 3 3",
    "r3k2r/1b4bq/8/8/8/8/7B/R3K2R w KQkq - 0 1",
    "2r3k1/pp3ppp/2n1b3/q2pP3/3P4/P1PB1N2/5PPP/R2Q1RK1 b - - 0 1",
    "rnbqk2r/ppp2ppp/3b1n2/3pp3/2P5/1P2PN2/PB1P1PPP/RN1QKB1R b KQkq - 0 1",
    "r1b1k2r/ppppnppp/2n2q2/2b5/3NP3/2P1B3/PP3PPP/RN1QKB1R w KQkq - 0 1",
    "8/pppppppp/8/8/8/8/PPPPPPPP/4K2k w - - 0 1",
    "4k2r/6pp/8/3Pp3/8/8/PP4PP/R3K3 w Qk e6 0 1",
    "rnbqkbnr/1ppppppp/8/p7/1P6/8/P1PPPPPP/RNBQKBNR w KQkq a6 0 2",
    "3rk2r/8/8/pP6/8/8/8/R3K2R w KQk a6 0 1",
];

fn sq_string(p: &[u8; 64]) -> String {
    String::from_utf8_lossy(p).to_string()
}

fn cr_list(mask: u8) -> Vec<&'static str> {
    let mut v = vec![];
    for (bit, s) in [(1u8, "K"), (2, "Q"), (4, "k"), (8, "q")].iter() {
        if mask & bit != 0 {
            v.push(*s);
        }
    }
    v
}

/// Everything the public API lets one see of a Board, verbatim.
fn observe(b: &Board, m: &mut Map<String, Value>) {
    let p = proj(b);
    m.insert("sq".into(), json!(sq_string(&p.sq)));
    m.insert("bb".into(), json!(sq_string(&proj_bb(b))));
    m.insert("occ".into(), json!(bb_squares(*b.combined())));
    m.insert("wocc".into(), json!(bb_squares(*b.color_combined(Color::White))));
    m.insert("bocc".into(), json!(bb_squares(*b.color_combined(Color::Black))));
    m.insert("stm".into(), json!((p.stm as char).to_string()));
    m.insert("cr".into(), json!(cr_list(p.cr)));
    m.insert("ep_raw".into(), json!(b.en_passant().map(|s| s.to_index() as i64).unwrap_or(-1)));
    m.insert("chk".into(), json!(bb_squares(*b.checkers())));
    m.insert("pin".into(), json!(bb_squares(*b.pinned())));
    m.insert("wk".into(), json!(b.king_square(Color::White).to_index()));
    m.insert("bk".into(), json!(b.king_square(Color::Black).to_index()));
    m.insert("hash".into(), json!(b.get_hash().to_string()));
    m.insert("stdhash".into(), json!(std_hash_hex(b)));
    m.insert("sane".into(), json!(b.is_sane()));
    m.insert(
        "status".into(),
        json!(match b.status() {
            BoardStatus::Ongoing => "Ongoing",
            BoardStatus::Checkmate => "Checkmate",
            BoardStatus::Stalemate => "Stalemate",
        }),
    );
    let text = format!("{}", b);
    m.insert("fen".into(), json!(text));
    let bbuilder: BoardBuilder = b.into();
    m.insert("bfen".into(), json!(format!("{}", bbuilder)));
    match Board::from_str(&text) {
        Ok(fresh) => {
            m.insert("eq_fresh".into(), json!(fresh == *b));
            m.insert("hash_fresh".into(), json!(fresh.get_hash().to_string()));
            m.insert("stdhash_fresh".into(), json!(std_hash_hex(&fresh)));
            m.insert("chk_fresh".into(), json!(bb_squares(*fresh.checkers())));
            m.insert("pin_fresh".into(), json!(bb_squares(*fresh.pinned())));
        }
        Err(_) => {
            m.insert("eq_fresh".into(), json!("unparsable"));
        }
    }
    let legal: Vec<ChessMove> = MoveGen::new_legal(b).collect();
    m.insert("legal".into(), Value::Array(legal.iter().map(|x| mv_json(*x)).collect()));
    m.insert("len".into(), json!(MoveGen::new_legal(b).len()));
}

fn interesting(b: &Board, m: ChessMove) -> bool {
    let cap = b.piece_on(m.get_dest()).is_some();
    let pawn = b.piece_on(m.get_source()) == Some(Piece::Pawn);
    let king = b.piece_on(m.get_source()) == Some(Piece::King);
    let fd = (m.get_source().get_file().to_index() as i32 - m.get_dest().get_file().to_index() as i32).abs();
    let rd = (m.get_source().get_rank().to_index() as i32 - m.get_dest().get_rank().to_index() as i32).abs();
    cap || m.get_promotion().is_some() || (king && fd == 2) || (pawn && fd == 1 && !cap) || (pawn && rd == 2)
}

fn board_chunk(rng: &mut Rng, events: usize, out: &mut dyn Write) {
    let mut n = 0;
    let dirty = Board::from_str(START_FENS[1]).unwrap();
    while n < events {
        let text = START_FENS[rng.below(START_FENS.len())];
        let mut b = Board::from_str(text).expect("start fen");
        let mut ev = Map::new();
        ev.insert("event".into(), json!("Reset"));
        ev.insert("text".into(), json!(text));
        observe(&b, &mut ev);
        writeln!(out, "{}", Value::Object(ev)).unwrap();
        n += 1;
        let plies = 40 + rng.below(360);
        for _ in 0..plies {
            if n >= events {
                break;
            }
            // sometimes try to pass (also while in check, to log the refusal)
            if rng.chance(1, 12) {
                let mut ev = Map::new();
                ev.insert("event".into(), json!("Null"));
                let before = b;
                match b.null_move() {
                    None => {
                        ev.insert("ok".into(), json!(false));
                        observe(&b, &mut ev);
                    }
                    Some(nb) => {
                        ev.insert("ok".into(), json!(true));
                        ev.insert("src_unchanged".into(), json!(before == b));
                        b = nb;
                        observe(&b, &mut ev);
                    }
                }
                writeln!(out, "{}", Value::Object(ev)).unwrap();
                n += 1;
                continue;
            }
            let ms: Vec<ChessMove> = MoveGen::new_legal(&b).collect();
            if ms.is_empty() {
                break;
            }
            let hot: Vec<ChessMove> = ms.iter().cloned().filter(|m| interesting(&b, *m)).collect();
            let m = if !hot.is_empty() && rng.chance(1, 2) { hot[rng.below(hot.len())] } else { ms[rng.below(ms.len())] };
            let before = b;
            let src = b;
            let r = std::panic::catch_unwind(|| {
                let n1 = src.make_move_new(m);
                let mut n2 = dirty;
                src.make_move(m, &mut n2);
                (n1, n2)
            });
            let mut ev = Map::new();
            ev.insert("event".into(), json!("Move"));
            ev.insert("m".into(), mv_json(m));
            match r {
                Ok((n1, n2)) => {
                    ev.insert("eq_other_entry".into(), json!(n1 == n2));
                    ev.insert("src_unchanged".into(), json!(before == src));
                    b = if rng.chance(1, 2) { n1 } else { n2 };
                    observe(&b, &mut ev);
                }
                Err(_) => {
                    ev.insert("panic".into(), json!(true));
                    writeln!(out, "{}", Value::Object(ev)).unwrap();
                    n += 1;
                    break;
                }
            }
            writeln!(out, "{}", Value::Object(ev)).unwrap();
            n += 1;
        }
    }
}


// ------------------------------------------------------------------ Game
fn result_name(r: Option<GameResult>) -> &'static str {
    match r {
        None => "None",
        Some(GameResult::WhiteCheckmates) => "WhiteCheckmates",
        Some(GameResult::WhiteResigns) => "WhiteResigns",
        Some(GameResult::BlackCheckmates) => "BlackCheckmates",
        Some(GameResult::BlackResigns) => "BlackResigns",
        Some(GameResult::Stalemate) => "Stalemate",
        Some(GameResult::DrawAccepted) => "DrawAccepted",
        Some(GameResult::DrawDeclared) => "DrawDeclared",
    }
}

fn observe_game(g: &Game, ev: &mut Map<String, Value>) {
    let b = g.current_position();
    let p = proj(&b);
    ev.insert("result".into(), json!(result_name(g.result())));
    ev.insert("nact".into(), json!(g.actions().len()));
    ev.insert("stm".into(), json!(if g.side_to_move() == Color::White { "w" } else { "b" }));
    ev.insert("sq".into(), json!(sq_string(&p.sq)));
    ev.insert("cstm".into(), json!((p.stm as char).to_string()));
    ev.insert("cr".into(), json!(cr_list(p.cr)));
    ev.insert("ep_raw".into(), json!(b.en_passant().map(|s| s.to_index() as i64).unwrap_or(-1)));
    ev.insert("can".into(), json!(g.can_declare_draw()));
}

const GAME_FENS: [&str; 14] = [
    "rnbqkbnr/pppppppp/8/8/8/8/PPPPPPPP/RNBQKBNR w KQkq - 0 1",
    "r3k2r/8/8/8/8/8/8/R3K2R w KQkq - 0 1",
    "4k3/8/8/8/8/8/8/R3K2R w KQ - 0 1",
    "1n2k1n1/8/8/8/8/8/8/1N2K1N1 w - - 0 1",
    "r3k3/8/8/8/8/8/8/R3K3 w Qq - 0 1",
    "8/8/8/8/8/5k2/8/5K1R w - - 0 1",
    "7k/5Q2/6K1/8/8/8/8/8 b - - 0 1",
    "7k/6Q1/6K1/8/8/8/8/8 b - - 0 1",
    "6k1/8/6K1/8/8/8/8/3Q4 w - - 0 1",
    "4k3/4p3/8/8/8/8/4P3/4K3 w - - 0 1",
    "2b1k3/8/8/8/8/8/8/2B1K3 w - - 0 1",
    "r1bqkbnr/pppp1ppp/2n5/1B2p3/4P3/5N2/PPPP1PPP/RNBQK2R b KQkq - 3 3",
    "4k2r/8/8/3Pp3/8/8/8/R3K3 w Qk e6 0 1",
    "3qk3/8/8/8/8/8/8/3QK3 w - - 0 1",
];

fn reversible(b: &Board, m: ChessMove) -> bool {
    b.piece_on(m.get_source()) != Some(Piece::Pawn) && b.piece_on(m.get_dest()).is_none()
}

fn keeps_rights(b: &Board, m: ChessMove) -> bool {
    let n = b.make_move_new(m);
    n.castle_rights(Color::White) == b.castle_rights(Color::White) && n.castle_rights(Color::Black) == b.castle_rights(Color::Black)
}

fn game_chunk(rng: &mut Rng, events: usize, out: &mut dyn Write, claims: bool) {
    let mut n = 0;
    while n < events {
        let text = GAME_FENS[rng.below(GAME_FENS.len())];
        let mut g = Game::from_str(text).expect("start fen");
        let mut ev = Map::new();
        ev.insert("event".into(), json!("GameNew"));
        ev.insert("text".into(), json!(text));
        observe_game(&g, &mut ev);
        writeln!(out, "{}", Value::Object(ev)).unwrap();
        n += 1;
        // style of this game: shuffle = long reversible play (fifty-move / repetition hunting)
        let shuffle = claims || rng.chance(1, 3);
        // the ply at which a castling right may be given up on purpose
        let rights_ply = 20 + rng.below(80);
        let len = if shuffle { 130 + rng.below(120) } else { 20 + rng.below(120) };
        let mut history: Vec<ChessMove> = vec![];
        let mut plies = 0usize;
        for _ in 0..len {
            if n >= events {
                break;
            }
            let b = g.current_position();
            let mut ev = Map::new();
            ev.insert("event".into(), json!("GameOp"));
            let roll = rng.below(100);
            let ms: Vec<ChessMove> = MoveGen::new_legal(&b).collect();
            let (p_move, p_illegal, p_offer, p_accept, p_resign) = if shuffle { (90, 92, 93, 94, 94) } else { (62, 72, 82, 90, 92) };
            if roll < p_move && !ms.is_empty() {
                let rev: Vec<ChessMove> = ms.iter().cloned().filter(|m| reversible(&b, *m)).collect();
                let quiet: Vec<ChessMove> = rev.iter().cloned().filter(|m| keeps_rights(&b, *m)).collect();
                let m = if shuffle {
                    // undo the move before last now and then (builds repetitions), otherwise prefer
                    // reversible moves; give up a castling right once, around rights_ply
                    let back = if history.len() >= 2 && rng.chance(1, 3) {
                        let h = history[history.len() - 2];
                        let inv = ChessMove::new(h.get_dest(), h.get_source(), None);
                        if rev.contains(&inv) { Some(inv) } else { None }
                    } else {
                        None
                    };
                    if let Some(x) = back {
                        x
                    } else if plies == rights_ply && rev.len() > quiet.len() {
                        let loses: Vec<ChessMove> = rev.iter().cloned().filter(|m| !quiet.contains(m)).collect();
                        loses[rng.below(loses.len())]
                    } else if !quiet.is_empty() && rng.chance(97, 100) {
                        quiet[rng.below(quiet.len())]
                    } else if !rev.is_empty() && rng.chance(1, 2) {
                        rev[rng.below(rev.len())]
                    } else {
                        ms[rng.below(ms.len())]
                    }
                } else {
                    ms[rng.below(ms.len())]
                };
                let ret = g.make_move(m);
                if ret {
                    history.push(m);
                    plies += 1;
                }
                ev.insert("op".into(), json!("make_move"));
                ev.insert("m".into(), mv_json(m));
                ev.insert("ret".into(), json!(ret));
            } else if roll < p_illegal || ms.is_empty() && roll < p_move {
                let r = rng.next();
                let promos = [None, Some(Piece::Queen), Some(Piece::Knight), None, None];
                let m = ChessMove::new(Square::new((r & 63) as u8), Square::new(((r >> 6) & 63) as u8), promos[((r >> 12) % 5) as usize]);
                let ret = g.make_move(m);
                if ret {
                    history.push(m);
                    plies += 1;
                }
                ev.insert("op".into(), json!("make_move"));
                ev.insert("m".into(), mv_json(m));
                ev.insert("ret".into(), json!(ret));
            } else if roll < p_offer {
                let c = if rng.chance(1, 2) { Color::White } else { Color::Black };
                let ret = g.offer_draw(c);
                ev.insert("op".into(), json!("offer_draw"));
                ev.insert("c".into(), json!(if c == Color::White { "w" } else { "b" }));
                ev.insert("ret".into(), json!(ret));
            } else if roll < p_accept {
                let ret = g.accept_draw();
                ev.insert("op".into(), json!("accept_draw"));
                ev.insert("ret".into(), json!(ret));
            } else if roll < p_resign {
                let c = if rng.chance(1, 2) { Color::White } else { Color::Black };
                let ret = g.resign(c);
                ev.insert("op".into(), json!("resign"));
                ev.insert("c".into(), json!(if c == Color::White { "w" } else { "b" }));
                ev.insert("ret".into(), json!(ret));
            } else {
                // declare: in shuffle games only rarely before the interesting region, so that the game goes on
                if shuffle && !(g.can_declare_draw() && rng.chance(1, 6)) && rng.chance(9, 10) {
                    // a pure query step: log an offer instead of ending the game... keep it simple: try declaring
                    // only when it would be refused or with small probability when due
                    if g.can_declare_draw() {
                        continue;
                    }
                }
                let ret = g.declare_draw();
                ev.insert("op".into(), json!("declare_draw"));
                ev.insert("ret".into(), json!(ret));
            }
            observe_game(&g, &mut ev);
            writeln!(out, "{}", Value::Object(ev)).unwrap();
            n += 1;
            if g.result().is_some() {
                // a few more calls after the result: everything must be refused
                for _ in 0..(1 + rng.below(4)) {
                    if n >= events {
                        break;
                    }
                    let mut ev = Map::new();
                    ev.insert("event".into(), json!("GameOp"));
                    match rng.below(5) {
                        0 => {
                            let b = g.current_position();
                            let ms: Vec<ChessMove> = MoveGen::new_legal(&b).collect();
                            let m = if ms.is_empty() { ChessMove::new(Square::new(12), Square::new(28), None) } else { ms[rng.below(ms.len())] };
                            let ret = g.make_move(m);
                            ev.insert("op".into(), json!("make_move"));
                            ev.insert("m".into(), mv_json(m));
                            ev.insert("ret".into(), json!(ret));
                        }
                        1 => {
                            let ret = g.offer_draw(Color::White);
                            ev.insert("op".into(), json!("offer_draw"));
                            ev.insert("c".into(), json!("w"));
                            ev.insert("ret".into(), json!(ret));
                        }
                        2 => {
                            let ret = g.accept_draw();
                            ev.insert("op".into(), json!("accept_draw"));
                            ev.insert("ret".into(), json!(ret));
                        }
                        3 => {
                            let ret = g.resign(Color::Black);
                            ev.insert("op".into(), json!("resign"));
                            ev.insert("c".into(), json!("b"));
                            ev.insert("ret".into(), json!(ret));
                        }
                        _ => {
                            let ret = g.declare_draw();
                            ev.insert("op".into(), json!("declare_draw"));
                            ev.insert("ret".into(), json!(ret));
                        }
                    }
                    observe_game(&g, &mut ev);
                    writeln!(out, "{}", Value::Object(ev)).unwrap();
                    n += 1;
                }
                break;
            }
        }
    }
}

fn main() {
    let args: Vec<String> = std::env::args().collect();
    if args.len() < 2 {
        eprintln!("usage: record <mode> ...");
        std::process::exit(2);
    }
    let mode = args[1].clone();
    let mut seed = 1u64;
    let mut chunks = 1usize;
    let mut events = 1000usize;
    let mut outdir = ".".to_string();
    let mut i = 2;
    while i < args.len() {
        match args[i].as_str() {
            "--seed" => {
                seed = args[i + 1].parse().unwrap();
                i += 1;
            }
            "--chunks" => {
                chunks = args[i + 1].parse().unwrap();
                i += 1;
            }
            "--events" => {
                events = args[i + 1].parse().unwrap();
                i += 1;
            }
            "--outdir" => {
                outdir = args[i + 1].clone();
                i += 1;
            }
            x => {
                eprintln!("unknown arg {}", x);
                std::process::exit(2);
            }
        }
        i += 1;
    }
    std::panic::set_hook(Box::new(|_| {}));
    std::fs::create_dir_all(&outdir).unwrap();
    for c in 0..chunks {
        let mut rng = Rng(seed.wrapping_mul(1_000_003).wrapping_add(c as u64 * 7919));
        let path = format!("{}/{}-{}.ndjson", outdir, mode, c);
        let mut f = std::io::BufWriter::new(std::fs::File::create(&path).unwrap());
        match mode.as_str() {
            "board" => board_chunk(&mut rng, events, &mut f),
            "game" => game_chunk(&mut rng, events, &mut f, false),
            "claims" => game_chunk(&mut rng, events, &mut f, true),
            x => {
                eprintln!("unknown mode {}", x);
                std::process::exit(2);
            }
        }
    }
}
