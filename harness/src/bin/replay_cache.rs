//! Direction A for CacheTable: every history TLC printed from MCCache
//! (`"CREC ..."`: table size, the sequence of add / replace_if calls and the
//! expected answer of every get) is executed on the real table with real
//! 64-bit hashes.  Model hash <<tag, idx>> maps to tagbits(tag) * size + idx
//! where tag 0 -> 0, 1 -> 1, 2 -> all remaining high bits set.

use chess::CacheTable;
use chess_verif_harness::*;
use serde_json::{json, Value};
use std::io::BufRead;

fn real_hash(tag: i64, idx: i64, size: u64) -> u64 {
    let shift = size.trailing_zeros();
    // tag 0 -> hash bits all zero above the index, tag 1 -> only bit 32 set (differs from tag 0 in the upper half
    // of the word only), tag 2 -> every bit above the index set
    let base: u64 = match tag {
        0 => 0,
        1 => 1u64 << 32,
        _ => (u64::MAX >> shift) << shift,
    };
    base | idx as u64
}

fn pred(k: &str, x: i64) -> Box<dyn Fn(i64) -> bool> {
    match k {
        "always" => Box::new(|_| true),
        "never" => Box::new(|_| false),
        "eq" => Box::new(move |c| c == x),
        "lt" => Box::new(move |c| c < x),
        _ => Box::new(move |c| c >= x),
    }
}

fn main() {
    let args: Vec<String> = std::env::args().collect();
    let mut out = String::new();
    let mut i = 1;
    while i < args.len() {
        if args[i] == "--out" {
            out = args[i + 1].clone();
            i += 1;
        }
        i += 1;
    }
    std::panic::set_hook(Box::new(|_| {}));
    let mut rep = Report::new();
    for line in std::io::stdin().lock().lines() {
        let line = match line {
            Ok(l) => l,
            Err(_) => continue,
        };
        if !line.starts_with("\"CREC ") {
            continue;
        }
        let rec = parse_tlc_line(&line, "CREC").expect("CREC");
        let size = rec["size"].as_u64().unwrap();
        let log = rec["log"].as_array().unwrap();
        rep.count("histories", 1);
        let r = std::panic::catch_unwind(|| {
            let mut rr = Report::new();
            let mut t: CacheTable<i64> = CacheTable::new(size as usize, 0);
            for op in log {
                let h = real_hash(op[1].as_i64().unwrap(), op[2].as_i64().unwrap(), size);
                let v = op[3].as_i64().unwrap();
                if op[0] == "add" {
                    t.add(h, v);
                } else {
                    let p = pred(op[4].as_str().unwrap(), op[5].as_i64().unwrap());
                    t.replace_if(h, v, |c| p(c));
                }
            }
            for g in rec["gets"].as_array().unwrap() {
                let h = real_hash(g[0].as_i64().unwrap(), g[1].as_i64().unwrap(), size);
                let want: Option<i64> = if g[2][0] == "some" { Some(g[2][1].as_i64().unwrap()) } else { None };
                let got = t.get(h);
                rr.count("gets", 1);
                if got != want {
                    rr.violation("C19", if got.is_some() { "get_returned_unexpected_value" } else { "get_missed_stored_value" },
                        json!({"size": size, "log": log, "get": [g[0], g[1]], "hash": h.to_string(), "expected": format!("{:?}", want), "observed": format!("{:?}", got)}));
                }
            }
            rr
        });
        match r {
            Ok(rr) => rep.merge(rr),
            Err(_) => rep.violation("C19", "panic_in_cache_table", json!({"size": size, "log": log})),
        }
        rep.sample("histories", json!({"size": size, "log": log}), 3);
    }
    let _ = Value::Null;
    let text = serde_json::to_string_pretty(&rep.to_json()).unwrap();
    if out.is_empty() {
        println!("{}", text);
    } else {
        std::fs::write(&out, text).unwrap();
    }
}
