//! Direction A for CacheTable: every history TLC printed from MCCache
//! (`"CREC ..."`: table size, the sequence of add / replace_if calls and the
//! expected answer of every get) is executed on the real table with real
//! 64-bit hashes.  Model hash <<tag, idx>> (idx = the slot, tag = which of
//! the slot's hashes) is mapped to a real hash by OBSERVATION: candidate
//! hashes are sorted into slot classes by watching evictions on a scratch
//! table (SlotProber); model slot 0 is the class of hash 0 and <<0, 0>> is
//! hash 0 itself; every model slot gets three hashes of one class, chosen so
//! that they differ in the low bits only, in the upper half of the word only
//! and in every high bit where the class offers such members.

use chess::CacheTable;
use chess_verif_harness::*;
use serde_json::{json, Value};
use std::io::BufRead;

/// concrete hashes for the model's <<tag, idx>> pairs of one table size: map[idx][tag]
fn hash_map(size: u64, ntags: usize) -> Result<Vec<Vec<u64>>, String> {
    let shift = size.trailing_zeros();
    let mut cands: Vec<u64> = vec![0];
    for idx in 0..size {
        // shaped for the usual slot functions; what they really share is observed below
        cands.push(idx);
        cands.push((1u64 << 32) | idx);
        cands.push(((u64::MAX >> shift) << shift) | idx);
        for k in 1..6u64 {
            cands.push(idx + k * size);
            cands.push(idx ^ (k << 32) ^ (k * size));
        }
    }
    let mut x = 0x9E37_79B9_7F4A_7C15u64;
    for _ in 0..(64 * size) {
        x = x.wrapping_mul(6364136223846793005).wrapping_add(1442695040888963407);
        cands.push(x);
    }
    let mut seen = std::collections::HashSet::new();
    cands.retain(|h| seen.insert(*h));
    let mut pr = SlotProber::new(size as usize);
    let mut classes: Vec<Vec<u64>> = vec![];
    for h in cands {
        let c = pr.class_of(h);
        if c >= classes.len() {
            classes.resize(c + 1, vec![]);
        }
        classes[c].push(h);
    }
    if classes.len() as u64 > size {
        return Err(format!("{} slot classes observed in a table of {} slots", classes.len(), size));
    }
    let usable: Vec<Vec<u64>> = classes.into_iter().filter(|c| c.len() >= ntags).map(|c| c[..ntags].to_vec()).collect();
    if (usable.len() as u64) < size || usable[0][0] != 0 {
        return Err(format!("could not find {} hashes for each of {} slots (found {} classes)", ntags, size, usable.len()));
    }
    Ok(usable[..size as usize].to_vec())
}

fn pred(k: &str, x: i64) -> Box<dyn Fn(i64) -> bool> {
    match k {
        "always" => Box::new(|_| true),
        "never" => Box::new(|_| false),
        "eq" => Box::new(move |c| c == x),
        "lt" => Box::new(move |c| c < x),
        _ => Box::new(move |c| c >= x),
    }
}

fn main() {
    let args: Vec<String> = std::env::args().collect();
    let mut out = String::new();
    let mut i = 1;
    while i < args.len() {
        if args[i] == "--out" {
            out = args[i + 1].clone();
            i += 1;
        }
        i += 1;
    }
    std::panic::set_hook(Box::new(|_| {}));
    let mut rep = Report::new();
    let mut maps: std::collections::HashMap<u64, Vec<Vec<u64>>> = std::collections::HashMap::new();
    for line in std::io::stdin().lock().lines() {
        let line = match line {
            Ok(l) => l,
            Err(_) => continue,
        };
        if !line.starts_with("\"CREC ") {
            continue;
        }
        let rec = parse_tlc_line(&line, "CREC").expect("CREC");
        let size = rec["size"].as_u64().unwrap();
        let log = rec["log"].as_array().unwrap();
        rep.count("histories", 1);
        if !maps.contains_key(&size) {
            match std::panic::catch_unwind(|| hash_map(size, 3)) {
                Ok(Ok(m)) => {
                    rep.sample("hashes_per_slot", json!({"size": size, "map": m.iter().map(|c| c.iter().map(|h| h.to_string()).collect::<Vec<_>>()).collect::<Vec<_>>()}), 3);
                    maps.insert(size, m);
                }
                Ok(Err(e)) => {
                    if e.contains("slot classes observed") {
                        rep.violation("C19", "more_slot_classes_than_slots", json!({"size": size, "what": e}));
                        continue;
                    }
                    eprintln!("{}", e);
                    std::process::exit(2);
                }
                Err(_) => {
                    rep.violation("C19", "panic_in_cache_table", json!({"size": size, "while": "observing which hashes share a slot"}));
                    continue;
                }
            }
        }
        let hm = maps.get(&size).unwrap().clone();
        let real_hash = move |tag: i64, idx: i64, _size: u64| -> u64 { hm[idx as usize][tag as usize] };
        let r = std::panic::catch_unwind(|| {
            let mut rr = Report::new();
            let mut t: CacheTable<i64> = CacheTable::new(size as usize, 0);
            for op in log {
                let h = real_hash(op[1].as_i64().unwrap(), op[2].as_i64().unwrap(), size);
                let v = op[3].as_i64().unwrap();
                if op[0] == "add" {
                    t.add(h, v);
                } else {
                    let p = pred(op[4].as_str().unwrap(), op[5].as_i64().unwrap());
                    t.replace_if(h, v, |c| p(c));
                }
            }
            for g in rec["gets"].as_array().unwrap() {
                let h = real_hash(g[0].as_i64().unwrap(), g[1].as_i64().unwrap(), size);
                let want: Option<i64> = if g[2][0] == "some" { Some(g[2][1].as_i64().unwrap()) } else { None };
                let got = t.get(h);
                rr.count("gets", 1);
                if got != want {
                    rr.violation("C19", if got.is_some() { "get_returned_unexpected_value" } else { "get_missed_stored_value" },
                        json!({"size": size, "log": log, "get": [g[0], g[1]], "hash": h.to_string(), "expected": format!("{:?}", want), "observed": format!("{:?}", got)}));
                }
            }
            rr
        });
        match r {
            Ok(rr) => rep.merge(rr),
            Err(_) => rep.violation("C19", "panic_in_cache_table", json!({"size": size, "log": log})),
        }
        rep.sample("histories", json!({"size": size, "log": log}), 3);
    }
    let _ = Value::Null;
    let text = serde_json::to_string_pretty(&rep.to_json()).unwrap();
    if out.is_empty() {
        println!("{}", text);
    } else {
        std::fs::write(&out, text).unwrap();
    }
}
