//! Shared pieces of the conformance harness: the projection of the real
//! library's state onto the specification's abstract position, decoding of
//! TLC-printed records, and violation bookkeeping.
//!
//! The harness never *interprets* chess: expected values come from TLC
//! (records printed by the TLA+ specification) or are judged by TLC (trace
//! validation).  What lives here is transliteration only.

use chess::*;
use serde_json::{json, Value};
use std::collections::BTreeMap;
use std::sync::Mutex;

pub const PIECE_LETTERS: [u8; 12] = *b"PNBRQKpnbrqk";

/// Abstract position exactly as the TLA+ spec has it: 64 squares of FEN
/// letters ('.' = empty), side to move, rights bitmask (K=1,Q=2,k=4,q=8)
/// and the en-passant square in FEN convention (square passed over) or -1.
#[derive(Clone, Copy, PartialEq, Eq, Hash, Debug)]
pub struct Pos {
    pub sq: [u8; 64],
    pub stm: u8,
    pub cr: u8,
    pub ep: i8,
}

impl Pos {
    pub fn key(&self) -> [u8; 67] {
        let mut k = [0u8; 67];
        k[..64].copy_from_slice(&self.sq);
        k[64] = self.stm;
        k[65] = self.cr;
        k[66] = self.ep as u8;
        k
    }
    pub fn placement_string(&self) -> String {
        let mut s = String::new();
        for r in (0..8).rev() {
            let mut run = 0;
            for f in 0..8 {
                let c = self.sq[r * 8 + f];
                if c == b'.' {
                    run += 1;
                } else {
                    if run > 0 {
                        s.push_str(&run.to_string());
                        run = 0;
                    }
                    s.push(c as char);
                }
            }
            if run > 0 {
                s.push_str(&run.to_string());
            }
            if r > 0 {
                s.push('/');
            }
        }
        s
    }
    pub fn cr_string(&self) -> String {
        if self.cr == 0 {
            return "-".into();
        }
        let mut s = String::new();
        for (bit, ch) in [(1u8, 'K'), (2, 'Q'), (4, 'k'), (8, 'q')].iter() {
            if self.cr & bit != 0 {
                s.push(*ch);
            }
        }
        s
    }
    /// Debug rendering only (never used as an oracle).
    pub fn describe(&self) -> String {
        format!(
            "{} {} {} {}",
            self.placement_string(),
            self.stm as char,
            self.cr_string(),
            if self.ep < 0 { "-".to_string() } else { sq_name(self.ep as u8) }
        )
    }
}

pub fn sq_name(s: u8) -> String {
    format!("{}{}", (b'a' + (s & 7)) as char, (b'1' + (s >> 3)) as char)
}

pub fn cr_bit(c: &str) -> u8 {
    match c {
        "K" => 1,
        "Q" => 2,
        "k" => 4,
        "q" => 8,
        _ => 0,
    }
}

/// Decode the first four fields of a FEN *written by the specification*.
pub fn pos_from_spec_fen(fen: &str) -> Pos {
    let f: Vec<&str> = fen.split(' ').collect();
    let mut sq = [b'.'; 64];
    let mut r: i32 = 7;
    let mut file: i32 = 0;
    for ch in f[0].bytes() {
        match ch {
            b'/' => {
                r -= 1;
                file = 0;
            }
            b'1'..=b'8' => file += (ch - b'0') as i32,
            _ => {
                sq[(r * 8 + file) as usize] = ch;
                file += 1;
            }
        }
    }
    let mut cr = 0;
    for ch in f[2].chars() {
        cr |= cr_bit(&ch.to_string());
    }
    let ep = if f[3] == "-" {
        -1
    } else {
        let b = f[3].as_bytes();
        ((b[1] - b'1') * 8 + (b[0] - b'a')) as i8
    };
    Pos { sq, stm: f[1].as_bytes()[0], cr, ep }
}

pub fn piece_letter(p: Piece, c: Color) -> u8 {
    let i = match p {
        Piece::Pawn => 0,
        Piece::Knight => 1,
        Piece::Bishop => 2,
        Piece::Rook => 3,
        Piece::Queen => 4,
        Piece::King => 5,
    };
    PIECE_LETTERS[i + if c == Color::White { 0 } else { 6 }]
}

pub fn letter_piece(l: u8) -> Option<(Piece, Color)> {
    let c = if l.is_ascii_uppercase() { Color::White } else { Color::Black };
    let p = match l.to_ascii_lowercase() {
        b'p' => Piece::Pawn,
        b'n' => Piece::Knight,
        b'b' => Piece::Bishop,
        b'r' => Piece::Rook,
        b'q' => Piece::Queen,
        b'k' => Piece::King,
        _ => return None,
    };
    Some((p, c))
}

pub fn rights_mask(b: &Board) -> u8 {
    let w = b.castle_rights(Color::White);
    let k = b.castle_rights(Color::Black);
    (if w.has_kingside() { 1 } else { 0 })
        | (if w.has_queenside() { 2 } else { 0 })
        | (if k.has_kingside() { 4 } else { 0 })
        | (if k.has_queenside() { 8 } else { 0 })
}

/// The library stores the *pushed pawn's* square; the spec the square it
/// passed over.  Pure index arithmetic.
pub fn ep_passed_over(b: &Board) -> i8 {
    match b.en_passant() {
        None => -1,
        Some(s) => {
            let i = s.to_index() as i8;
            if b.side_to_move() == Color::White {
                i + 8
            } else {
                i - 8
            }
        }
    }
}

/// Projection through the per-square queries.
pub fn proj(b: &Board) -> Pos {
    let mut sq = [b'.'; 64];
    for i in 0..64u8 {
        let s = Square::new(i);
        match (b.piece_on(s), b.color_on(s)) {
            (Some(p), Some(c)) => sq[i as usize] = piece_letter(p, c),
            (None, None) => {}
            // inconsistent views: mark so that every comparison fails loudly
            (Some(_), None) => sq[i as usize] = b'?',
            (None, Some(_)) => sq[i as usize] = b'!',
        }
    }
    Pos {
        sq,
        stm: if b.side_to_move() == Color::White { b'w' } else { b'b' },
        cr: rights_mask(b),
        ep: ep_passed_over(b),
    }
}

/// Projection through the bitboard views (pieces(p) & color_combined(c)).
/// A square claimed by two bitboards is marked '#'.
pub fn proj_bb(b: &Board) -> [u8; 64] {
    let mut sq = [b'.'; 64];
    for c in ALL_COLORS.iter() {
        for p in ALL_PIECES.iter() {
            for s in *b.pieces(*p) & *b.color_combined(*c) {
                let i = s.to_index();
                sq[i] = if sq[i] == b'.' { piece_letter(*p, *c) } else { b'#' };
            }
        }
    }
    sq
}

pub fn bb_squares(bb: BitBoard) -> Vec<u8> {
    bb.map(|s| s.to_index() as u8).collect()
}

pub fn castle_rights_of(mask: u8, c: Color) -> CastleRights {
    let (k, q) = if c == Color::White { (mask & 1 != 0, mask & 2 != 0) } else { (mask & 4 != 0, mask & 8 != 0) };
    match (k, q) {
        (true, true) => CastleRights::Both,
        (true, false) => CastleRights::KingSide,
        (false, true) => CastleRights::QueenSide,
        (false, false) => CastleRights::NoRights,
    }
}

/// Build the position through the unvalidated builder (not through text).
pub fn pos_to_builder(p: &Pos) -> BoardBuilder {
    let mut bb = BoardBuilder::new();
    for i in 0..64u8 {
        if let Some((pc, c)) = letter_piece(p.sq[i as usize]) {
            bb.piece(Square::new(i), pc, c);
        }
    }
    bb.side_to_move(if p.stm == b'w' { Color::White } else { Color::Black });
    bb.castle_rights(Color::White, castle_rights_of(p.cr, Color::White));
    bb.castle_rights(Color::Black, castle_rights_of(p.cr, Color::Black));
    if p.ep >= 0 {
        bb.en_passant(Some(File::from_index((p.ep & 7) as usize)));
    }
    bb
}

/// the same builder state, but the en-passant file is named first (on a fresh builder, whose side to move is
/// White by default) and the side to move last
pub fn pos_to_builder_ep_first(p: &Pos) -> BoardBuilder {
    let mut bb = BoardBuilder::new();
    if p.ep >= 0 {
        bb.en_passant(Some(File::from_index((p.ep & 7) as usize)));
    }
    bb.castle_rights(Color::Black, castle_rights_of(p.cr, Color::Black));
    for i in (0..64u8).rev() {
        if let Some((pc, c)) = letter_piece(p.sq[i as usize]) {
            bb.piece(Square::new(i), pc, c);
        }
    }
    bb.castle_rights(Color::White, castle_rights_of(p.cr, Color::White));
    bb.side_to_move(if p.stm == b'w' { Color::White } else { Color::Black });
    bb
}

pub fn mk_move(f: u8, t: u8, p: &str) -> ChessMove {
    let promo = match p {
        "q" => Some(Piece::Queen),
        "r" => Some(Piece::Rook),
        "b" => Some(Piece::Bishop),
        "n" => Some(Piece::Knight),
        "p" => Some(Piece::Pawn),      // not a promotion the rules know: such a value is never a legal move
        "k" => Some(Piece::King),
        _ => None,
    };
    ChessMove::new(Square::new(f), Square::new(t), promo)
}

pub fn promo_char(p: Option<Piece>) -> char {
    match p {
        None => '-',
        Some(Piece::Queen) => 'q',
        Some(Piece::Rook) => 'r',
        Some(Piece::Bishop) => 'b',
        Some(Piece::Knight) => 'n',
        Some(Piece::King) => 'k',
        Some(Piece::Pawn) => 'p',
    }
}

pub fn mv_triple(m: ChessMove) -> (u8, u8, char) {
    (m.get_source().to_index() as u8, m.get_dest().to_index() as u8, promo_char(m.get_promotion()))
}

pub fn mv_json(m: ChessMove) -> Value {
    let (f, t, p) = mv_triple(m);
    json!([f, t, p.to_string()])
}

// ---- colour mirror / left-right flip of squares, letters, positions ----
pub fn mirror_sq(s: u8) -> u8 {
    s ^ 56
}
pub fn flip_sq(s: u8) -> u8 {
    s ^ 7
}
pub fn swap_case(c: u8) -> u8 {
    if c.is_ascii_uppercase() {
        c.to_ascii_lowercase()
    } else if c.is_ascii_lowercase() {
        c.to_ascii_uppercase()
    } else {
        c
    }
}
pub fn mirror_pos(p: &Pos) -> Pos {
    let mut sq = [b'.'; 64];
    for i in 0..64u8 {
        sq[i as usize] = swap_case(p.sq[mirror_sq(i) as usize]);
    }
    Pos {
        sq,
        stm: if p.stm == b'w' { b'b' } else { b'w' },
        cr: ((p.cr & 3) << 2) | ((p.cr >> 2) & 3),
        ep: if p.ep < 0 { -1 } else { mirror_sq(p.ep as u8) as i8 },
    }
}
pub fn flip_pos(p: &Pos) -> Pos {
    let mut sq = [b'.'; 64];
    for i in 0..64u8 {
        sq[i as usize] = p.sq[flip_sq(i) as usize];
    }
    Pos { sq, stm: p.stm, cr: p.cr, ep: if p.ep < 0 { -1 } else { flip_sq(p.ep as u8) as i8 } }
}

/// A TLC `PrintT("REC " \o ToJson(..))` line: a quoted TLA+ string.
pub fn parse_tlc_line(line: &str, tag: &str) -> Option<Value> {
    let line = line.trim_end();
    let prefix = format!("\"{} ", tag);
    if !line.starts_with(&prefix) || !line.ends_with('"') {
        return None;
    }
    let inner = &line[prefix.len()..line.len() - 1];
    let mut out = String::with_capacity(inner.len());
    let mut it = inner.chars();
    while let Some(c) = it.next() {
        if c == '\\' {
            match it.next() {
                Some('"') => out.push('"'),
                Some('\\') => out.push('\\'),
                Some('n') => out.push('\n'),
                Some('t') => out.push('\t'),
                Some(o) => {
                    out.push('\\');
                    out.push(o)
                }
                None => out.push('\\'),
            }
        } else {
            out.push(c);
        }
    }
    serde_json::from_str(&out).ok()
}

// ------------------------- violation bookkeeping -------------------------
pub struct Report {
    pub viol: BTreeMap<(String, String), (u64, Vec<Value>)>,
    pub counters: BTreeMap<String, u64>,
    pub samples: BTreeMap<String, Vec<Value>>,
    pub keep: usize,
}

impl Report {
    pub fn new() -> Report {
        Report { viol: BTreeMap::new(), counters: BTreeMap::new(), samples: BTreeMap::new(), keep: 5 }
    }
    pub fn violation(&mut self, prop: &str, kind: &str, detail: Value) {
        let e = self.viol.entry((prop.to_string(), kind.to_string())).or_insert((0, vec![]));
        e.0 += 1;
        if e.1.len() < self.keep {
            e.1.push(detail);
        }
    }
    pub fn count(&mut self, name: &str, n: u64) {
        *self.counters.entry(name.to_string()).or_insert(0) += n;
    }
    pub fn sample(&mut self, name: &str, v: Value, max: usize) {
        let e = self.samples.entry(name.to_string()).or_insert(vec![]);
        if e.len() < max {
            e.push(v);
        }
    }
    pub fn merge(&mut self, other: Report) {
        for (k, (n, d)) in other.viol {
            let e = self.viol.entry(k).or_insert((0, vec![]));
            e.0 += n;
            for x in d {
                if e.1.len() < self.keep {
                    e.1.push(x);
                }
            }
        }
        for (k, n) in other.counters {
            *self.counters.entry(k).or_insert(0) += n;
        }
        for (k, v) in other.samples {
            let e = self.samples.entry(k).or_insert(vec![]);
            for x in v {
                if e.len() < 3 {
                    e.push(x);
                }
            }
        }
    }
    pub fn to_json(&self) -> Value {
        let mut v = vec![];
        for ((p, k), (n, d)) in self.viol.iter() {
            v.push(json!({"property": p, "kind": k, "count": n, "examples": d}));
        }
        json!({"violations": v, "counters": self.counters, "samples": self.samples})
    }
}

pub type SharedReport = Mutex<Report>;

// ------------------------- CacheTable: which hashes share a slot -------------------------
/// The property does not say WHICH slot a hash is kept in, only that every hash has one.  The harness therefore never
/// computes a slot itself: it finds out which hashes share a slot by watching evictions on a scratch table of the same
/// size (write a, write b, is a gone?).  Class 0 is the class of hash 0 (whose slot an untouched table answers for).
pub struct SlotProber {
    t: chess::CacheTable<u8>,
    pub reps: Vec<u64>,
}

impl SlotProber {
    pub fn new(size: usize) -> SlotProber {
        SlotProber { t: chess::CacheTable::new(size, 0u8), reps: vec![0] }
    }
    fn same_slot(&mut self, a: u64, b: u64) -> bool {
        if a == b {
            return true;
        }
        self.t.add(a, 1);
        self.t.add(b, 2);
        self.t.get(a).is_none()
    }
    /// class id of h; a hash that evicts no known representative founds a new class
    pub fn class_of(&mut self, h: u64) -> usize {
        for i in 0..self.reps.len() {
            let r = self.reps[i];
            if self.same_slot(h, r) {
                return i;
            }
        }
        self.reps.push(h);
        self.reps.len() - 1
    }
}
