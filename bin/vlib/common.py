"""Shared plumbing of the check driver: building the harness against /repo's
working tree, running TLC, caching spec-derived record sets, known findings,
evidence and the VIOLATION / KNOWN-FINDING protocol.

Exit codes: 0 property held on everything explored (KNOWN-FINDING lines allowed),
            1 at least one VIOLATION line was printed,
            2 tool error (build failure, TLC crash/timeout, broken spec) - never a verdict.
"""
import fcntl
import glob
import gzip
import hashlib
import json
import os
import re
import shutil
import subprocess
import sys
import time

VERIF = os.path.dirname(os.path.dirname(os.path.dirname(os.path.abspath(__file__))))
SPEC = os.path.join(VERIF, "spec")
HARNESS = os.path.join(VERIF, "harness")
WORK = os.path.join(VERIF, "work")
RECS = os.environ.get("VERIF_RECS", os.path.join(WORK, "recs"))
REPLAYS = os.path.join(VERIF, "replays")
EVIDENCE = os.path.join(VERIF, "evidence")
REPO = os.environ.get("VERIF_REPO", "/repo")
TLA_JAR = "/opt/veriftools/tla/tla2tools.jar"
TLA_CP = TLA_JAR + ":/opt/veriftools/tla/CommunityModules-deps.jar"
NCPU = os.cpu_count() or 4


class ToolError(Exception):
    pass


def log(*a):
    print("[check]", *a, file=sys.stderr, flush=True)


def seed():
    try:
        return int(os.environ.get("VERIF_SEED", "1"))
    except ValueError:
        return 1


def ensure_dirs():
    for d in (WORK, RECS, REPLAYS, EVIDENCE):
        os.makedirs(d, exist_ok=True)


def sha_files(paths):
    h = hashlib.sha256()
    for p in sorted(paths):
        h.update(os.path.basename(p).encode())      # content-addressed: independent of where /verif lives
        with open(p, "rb") as f:
            h.update(f.read())
    return h.hexdigest()


MODULE_DEPS = {
    "MCBoard.tla": ["Geometry.tla", "Rules.tla", "RulesImpl.tla", "Text.tla", "San.tla", "MCBoard.tla"],
    "MCGame.tla": ["Geometry.tla", "Rules.tla", "Text.tla", "Game.tla", "MCGame.tla"],
    "MCIter.tla": ["MoveGenIter.tla", "MoveGenImpl.tla", "MCIter.tla"],
    "MCCache.tla": ["CacheTable.tla", "MCCache.tla"],
    "MCText.tla": ["Geometry.tla", "Rules.tla", "Text.tla", "MCText.tla"],
    "MCGeom.tla": ["Geometry.tla", "MCGeom.tla"],
    "MCVocab.tla": ["Geometry.tla", "Vocab.tla", "MCVocab.tla"],
}


def spec_hash(module=None, constants=None):
    """Hash of the TLA+ text a model depends on (all modules if unknown).  MCBoard evaluates San.tla only when
    the model prints SAN tables (San = TRUE), so other board models do not depend on its text."""
    deps = MODULE_DEPS.get(module)
    if deps and module == "MCBoard.tla" and constants is not None and not constants.get("San"):
        deps = [d for d in deps if d != "San.tla"]
    files = [os.path.join(SPEC, d) for d in deps] if deps else glob.glob(os.path.join(SPEC, "*.tla"))
    return sha_files(files)[:16]


_built = {}


def harness_dir():
    """The harness crate has a path dependency on /repo.  For mutation experiments VERIF_REPO may point at a
    scratch worktree: a copy of the crate with the path rewritten is then used (never for registered checks)."""
    if REPO == "/repo":
        return HARNESS
    alt = os.path.join(WORK, "harness-alt-" + hashlib.sha256(REPO.encode()).hexdigest()[:10])
    os.makedirs(os.path.join(alt, "src", "bin"), exist_ok=True)
    os.makedirs(os.path.join(alt, ".cargo"), exist_ok=True)
    for rel in ["Cargo.lock", ".cargo/config.toml", "src/lib.rs"] + ["src/bin/" + f for f in os.listdir(os.path.join(HARNESS, "src", "bin"))]:
        src, dst = os.path.join(HARNESS, rel), os.path.join(alt, rel)
        data = open(src, "rb").read()
        if not os.path.exists(dst) or open(dst, "rb").read() != data:
            open(dst, "wb").write(data)
    toml = open(os.path.join(HARNESS, "Cargo.toml")).read().replace('path = "/repo"', 'path = "%s"' % REPO)
    if not os.path.exists(os.path.join(alt, "Cargo.toml")) or open(os.path.join(alt, "Cargo.toml")).read() != toml:
        open(os.path.join(alt, "Cargo.toml"), "w").write(toml)
    return alt


def build_harness(bmi2=False):
    """cargo build of the harness (path dependency on /repo => always the current working tree)."""
    key = "bmi2" if bmi2 else "default"
    if key in _built:
        return _built[key]
    env = dict(os.environ)
    env["CARGO_NET_OFFLINE"] = "true"
    hdir = harness_dir()
    target = os.path.join(hdir, "target-bmi2" if bmi2 else "target")
    env["CARGO_TARGET_DIR"] = target
    if bmi2:
        env["RUSTFLAGS"] = "--cfg jordanbray_chess_verif --check-cfg cfg(jordanbray_chess_verif) -C target-feature=+bmi2"
    t0 = time.time()
    with open(os.path.join(WORK, "build.lock"), "w") as lk:
        fcntl.flock(lk, fcntl.LOCK_EX)
        p = subprocess.run(["cargo", "build", "--release", "--offline", "--quiet"], cwd=hdir, env=env,
                           stdout=subprocess.PIPE, stderr=subprocess.STDOUT, text=True)
    if p.returncode != 0:
        sys.stderr.write(p.stdout[-6000:])
        raise ToolError("cargo build of the harness failed (does %s compile?)" % REPO)
    log("harness built (%s, against %s) in %.1fs" % (key, REPO, time.time() - t0))
    _built[key] = os.path.join(target, "release")
    return _built[key]


def run_on_records(paths, cmd):
    """zcat <paths> | cmd.  The parent closes its copy of the pipe, so that zcat is not left blocked on a full pipe
    when the consumer dies half-way (a library abort under test must end the check, not hang it)."""
    cat = subprocess.Popen(["zcat"] + list(paths), stdout=subprocess.PIPE)
    p = subprocess.Popen(cmd, stdin=cat.stdout, stdout=subprocess.PIPE, stderr=subprocess.PIPE, text=True)
    cat.stdout.close()
    out, err = p.communicate()
    cat.wait()
    return subprocess.CompletedProcess(cmd, p.returncode, out, err)


def java_env(extra=""):
    env = dict(os.environ)
    env["JAVA_TOOL_OPTIONS"] = (env.get("JAVA_TOOL_OPTIONS", "") + " " + extra).strip()
    return env


def tlc_cmd(module, cfg, workers, metadir, extra=(), xmx=None):
    cmd = ["java", "-XX:+UseParallelGC"]
    if xmx:
        cmd.append("-Xmx" + xmx)
    cmd += ["-cp", TLA_CP, "tlc2.TLC", "-workers", str(workers), "-metadir", metadir, "-cleanup",
            "-noGenerateSpecTE", "-config", cfg]
    cmd += list(extra)
    cmd.append(module)
    return cmd


TLC_STATS = re.compile(r"^(\d+) states generated, (\d+) distinct states found")
SIM_STATS = re.compile(r"The number of states generated: (\d+)")


def parse_tlc_summary(lines):
    """states / transitions as TLC itself reports them; ok iff TLC finished without reporting an error."""
    out = {"generated": 0, "distinct": 0, "ok": False, "error": None}
    finished = False
    for ln in lines:
        m = TLC_STATS.match(ln)
        if m:
            out["generated"] = int(m.group(1))
            out["distinct"] = int(m.group(2))
        m = SIM_STATS.search(ln)
        if m:
            out["generated"] = int(m.group(1))
            out["distinct"] = int(m.group(1))
        if ln.startswith("Finished in"):
            finished = True
        if (ln.startswith("Error:") or "TLC threw an unexpected exception" in ln or " is violated" in ln) and out["error"] is None:
            out["error"] = ln.strip()
    out["ok"] = finished and out["error"] is None
    return out


def write_cfg(path, spec="Spec", constants=None, extra_lines=()):
    with open(path, "w") as f:
        f.write("SPECIFICATION %s\n" % spec)
        if constants:
            f.write("CONSTANTS\n")
            for k, v in constants.items():
                if isinstance(v, bool):
                    v = "TRUE" if v else "FALSE"
                elif isinstance(v, str) and not getattr(constants, "raw", False):
                    v = '"%s"' % v
                f.write("  %s = %s\n" % (k, v))
        f.write("CHECK_DEADLOCK FALSE\n")
        for ln in extra_lines:
            f.write(ln + "\n")


def generate_records(name, module, constants, mode, outpath, timeout, sim=None, tag="REC", cfg_extra=()):
    """Run TLC on a record-emitting model and keep its output (records and summary) gzip-compressed.
    The content depends on the specification only - never on /repo."""
    ensure_dirs()
    tmpdir = os.path.join(WORK, "gen-%s-%d" % (name, os.getpid()))
    os.makedirs(tmpdir, exist_ok=True)
    cfg = os.path.join(tmpdir, "model.cfg")
    write_cfg(cfg, constants=constants, extra_lines=cfg_extra)
    extra = []
    if mode == "sim":
        extra = ["-simulate", "num=%d" % sim["num"], "-depth", str(sim["depth"]), "-seed", str(sim["seed"])]
    cmd = tlc_cmd(os.path.join(SPEC, module), cfg, NCPU, os.path.join(tmpdir, "meta"), extra)
    t0 = time.time()
    tmpout = outpath + ".tmp%d" % os.getpid()
    tail = []
    nrec = 0
    try:
        p = subprocess.Popen(["timeout", str(timeout)] + cmd, cwd=SPEC, stdout=subprocess.PIPE, stderr=subprocess.STDOUT,
                             env=java_env(), text=True, bufsize=1 << 20)
        with gzip.open(tmpout, "wt", compresslevel=1) as gz:
            for ln in p.stdout:
                if ln.startswith(tuple('"%s ' % t for t in tag.split("|"))):
                    nrec += 1
                    gz.write(ln)
                elif not ln.startswith(("Semantic", "Parsing", "Linting")):
                    tail.append(ln.rstrip("\n"))
                    if len(tail) > 400:
                        del tail[:200]
        rc = p.wait()
    finally:
        shutil.rmtree(tmpdir, ignore_errors=True)
    summ = parse_tlc_summary(tail)
    if rc != 0 or not summ["ok"]:
        if os.path.exists(tmpout):
            os.unlink(tmpout)
        sys.stderr.write("\n".join(tail[-40:]) + "\n")
        raise ToolError("TLC failed on %s (%s): rc=%d %s - a failure here is a specification/tool error, not a verdict"
                        % (name, module, rc, summ["error"]))
    meta = {"name": name, "module": module, "constants": constants, "mode": mode, "sim": sim, "records": nrec,
            "tlc_states_generated": summ["generated"], "tlc_distinct_states": summ["distinct"],
            "wall_s": round(time.time() - t0, 1), "spec_hash": spec_hash(module, constants)}
    with open(outpath + ".meta.json", "w") as f:
        json.dump(meta, f)
    os.rename(tmpout, outpath)
    log("generated %s: %d records, %d states generated, %.0fs" % (name, nrec, summ["generated"], time.time() - t0))
    return meta


def recordset(name, module, constants, mode="bfs", sim=None, timeout=3600, tag="REC", cfg_extra=()):
    """Path of the (cached) TLC output for one model; generated on first use.
    Cache key: spec text + model parameters (+ simulation seed).  Nothing of /repo enters it."""
    ensure_dirs()
    key = hashlib.sha256(json.dumps([spec_hash(module, constants), module, constants, mode, sim, tag, list(cfg_extra)], sort_keys=True).encode()).hexdigest()[:12]
    path = os.path.join(RECS, "%s-%s.gz" % (name, key))
    with open(os.path.join(RECS, ".%s.lock" % name), "w") as lk:
        fcntl.flock(lk, fcntl.LOCK_EX)
        if not (os.path.exists(path) and os.path.exists(path + ".meta.json")):
            generate_records(name, module, constants, mode, path, timeout, sim, tag, cfg_extra)
    with open(path + ".meta.json") as f:
        meta = json.load(f)
    return path, meta


# ------------------------------------------------------------------ findings
def load_known():
    p = os.path.join(VERIF, "known_findings.json")
    if not os.path.exists(p):
        return {"findings": [], "fixed": []}
    with open(p) as f:
        return json.load(f)


def finding_matches(f, v):
    if f.get("property") != v["property"]:
        return False
    if "kind" in f and not re.fullmatch(f["kind"], v["kind"]):
        return False
    for k, rx in f.get("match", {}).items():
        val = v["detail"].get(k)
        sval = val if isinstance(val, str) else json.dumps(val, sort_keys=True)
        if not re.search(rx, sval):
            return False
    return True


def finish(prop, tier, level, violations, coverage, assumptions, t0, extra_known_lines=()):
    """violations: list of {"property","kind","detail",["count"]}.  Writes evidence, prints verdict lines, returns exit code."""
    ensure_dirs()
    known = load_known()
    mine = [v for v in violations if v["property"] == prop]
    # divergences from parts of the specification that no listed property states (module Vocab, ...): reported, never a verdict
    beyond = [v for v in violations if v["property"] == "SPEC"]
    for v in beyond[:10]:
        print("NOTE: spec-divergence (beyond the listed properties, not a verdict) kind=%s count=%d detail=%s"
              % (v["kind"], v.get("count", 1), json.dumps(v["detail"])[:300]))
    new, printed_known = [], {}
    for v in mine:
        hit = None
        for f in known.get("findings", []):
            if finding_matches(f, v):
                hit = f
                break
        if hit is not None:
            printed_known.setdefault(hit["id"], (hit, 0))
            printed_known[hit["id"]] = (hit, printed_known[hit["id"]][1] + v.get("count", 1))
        else:
            new.append(v)
    for hid, (hit, n) in printed_known.items():
        print("KNOWN-FINDING: property=%s %s (%d occurrence(s) this run; id=%s)" % (prop, hit["what"], n, hid))
    for old in glob.glob(os.path.join(REPLAYS, "%s-%s-*.json" % (prop, tier))):
        os.unlink(old)
    rc = 0
    for i, v in enumerate(new[:20]):
        path = os.path.join(REPLAYS, "%s-%s-%d.json" % (prop, tier, i))
        with open(path, "w") as f:
            json.dump({"property": prop, "tier": tier, "seed": seed(), "kind": v["kind"], "count": v.get("count", 1),
                       "detail": v["detail"], "replay": v.get("replay")}, f, indent=1)
        print("VIOLATION property=%s replay=%s kind=%s" % (prop, path, v["kind"]))
        rc = 1
    ev = {"property_id": prop, "tier": tier, "seed": seed(), "level": level, "coverage": coverage,
          "assumptions": assumptions, "wall_s": round(time.time() - t0, 1), "violations": len(new),
          "known_findings_seen": sorted(printed_known.keys()),
          "spec_divergences_beyond_listed_properties": [{"kind": v["kind"], "count": v.get("count", 1), "detail": v["detail"]} for v in beyond[:10]]}
    with open(os.path.join(EVIDENCE, "%s.json" % prop), "w") as f:
        json.dump(ev, f, indent=1)
    log("%s %s: %s in %.0fs" % (prop, tier, "OK" if rc == 0 else "%d violation kind(s)" % len(new), time.time() - t0))
    return rc
