"""Checks built from the generic pieces: a TLC model-checking run (optionally record-emitting and replayed
into the implementation) plus trace validation of recorded executions.

  C14  MoveGen iterator contract   MCIter (design refinement)          + TraceIter  (scripts on real positions)
  C19  CacheTable                  MCCache (exhaustive small tables)   + TraceCache (long random scripts)
  C12  SAN                         MCBoard records with SAN tables     + TraceText  (fuzzed text)
  C13  UCI text                    MCText (all 20480 moves, 64 squares)+ TraceText  (fuzzed text)
  C07  validation                  (valid spec states are accepted: via the board replayer) + TraceBuild
"""
import json
import os
import shutil
import subprocess
import time

from . import common as C
from . import board as B


ALLSQ = "{" + ", ".join(str(i) for i in range(64)) + "}"


class RawConsts(dict):
    """constants whose values are TLA+ expressions written verbatim into the cfg (strings must carry their own quotes)"""
    raw = True


def replay_stream(binary, paths, args):
    bindir = C.build_harness()
    report = os.path.join(C.WORK, "replay-%s-%d.json" % (binary, os.getpid()))
    p = C.run_on_records(paths, [os.path.join(bindir, binary)] + args + ["--out", report])
    if p.returncode == 2:
        raise C.ToolError("%s failed: %s" % (binary, p.stderr[-2000:]))
    if p.returncode != 0:
        return None, {"exit": p.returncode, "stderr": p.stderr[-2000:]}
    rep = json.load(open(report))
    os.unlink(report)
    return rep, None


def rep_violations(rep):
    out = []
    for v in rep["violations"]:
        for ex in v["examples"][:3]:
            out.append({"property": v["property"], "kind": v["kind"], "count": v["count"], "detail": ex})
    return out


def traces(prop, module, cfg, modes, seed, what):
    """modes: list of (record mode, chunks, events).  Returns (violations, stats)."""
    viol, files_all, dirs = [], [], []
    for i, (mode, chunks, events) in enumerate(modes):
        outdir, files, rc, err = B.record_traces(mode, seed + 17 * i, chunks, events)
        dirs.append(outdir)
        if rc != 0:
            marks = [f for f in os.listdir(outdir) if f.endswith(".progress")]
            inflight = open(os.path.join(outdir, marks[0])).read()[:2000] if marks else None
            viol.append({"property": prop, "kind": "library_crashed_while_recording_" + mode,
                         "detail": {"exit": rc, "stderr": err, "input_in_flight": inflight}})
        files_all += [f for f in files if os.path.getsize(f) > 0]
    results = B.validate_traces(module, cfg, files_all, prop)
    viol += B.trace_violations(prop, results, what)
    stats = {"chunks": len(results), "events": sum(sum(1 for _ in open(f)) for f in files_all),
             "generated": sum(r["generated"] for r in results), "distinct": sum(r["distinct"] for r in results)}
    samples = []
    if files_all:
        with open(files_all[0]) as f:
            for k, ln in enumerate(f):
                if k >= 3:
                    break
                ev = json.loads(ln)
                samples.append({k2: ev[k2] for k2 in list(ev)[:8]})
    for d in dirs:
        shutil.rmtree(d, ignore_errors=True)
    return viol, stats, samples


def run_mc(name, module, cfgfile, constants=None, extra=(), timeout=3600):
    """A pure model-checking run (no emission) cached like a record set; returns its meta."""
    path, meta = C.recordset(name, module, constants or {}, "bfs", None, timeout=timeout, tag="NOREC", cfg_extra=tuple(extra))
    return meta


def coverage(sets_meta, tv, extra):
    cov = {
        "states": sum((m["records"] if m.get("mode") == "sim" else m["tlc_distinct_states"]) for m in sets_meta) + tv["distinct"],
        "transitions": sum(m["tlc_states_generated"] for m in sets_meta) + tv["generated"],
        "traces_validated_against_impl": tv["chunks"],
        "trace_events_validated": tv["events"],
        "models": [{"name": m["name"], "constants": m["constants"], "records": m["records"],
                    "tlc_states_generated": m["tlc_states_generated"], "tlc_distinct_states": m["tlc_distinct_states"]} for m in sets_meta],
        "exhaustive": False,
    }
    cov.update(extra)
    if not cov.get("samples"):
        cov["samples"] = [{"note": "no sample"}]
    return cov


def run_tlaps(rel):
    """Machine-checked laws of the specification itself (unbounded); a failure is a specification error."""
    import re
    p = subprocess.run(["timeout", "900", "tlapm", "--threads", "4", os.path.basename(rel)], cwd=os.path.join(C.SPEC, os.path.dirname(rel)),
                       stdout=subprocess.PIPE, stderr=subprocess.STDOUT, text=True)
    m = re.search(r"All (\d+) obligations? proved", p.stdout)
    if not m:
        raise C.ToolError("tlapm did not prove %s: %s" % (rel, p.stdout[-1500:]))
    return {"module": rel, "obligations": int(m.group(1)), "discharged": int(m.group(1)), "checker_cmd": "tlapm " + rel}


# ---------------------------------------------------------------- C14
def check_c14(tier):
    t0 = time.time()
    prop, seed = "C14", C.seed()
    mc = iter_design(tier)
    chunks, events = (16, 1500) if tier == "quick" else (64, 6000)
    viol, tv, samples = traces(prop, "TraceIter.tla", "TraceIter.cfg", [("iter", chunks, events)], seed, "iterator")
    proofs = run_tlaps("proofs/IterProofs.tla")
    cov = coverage([mc], tv, {"samples": samples, "design_model": "MCIter: MoveGenImpl (entry list, cursor, partition) refines MoveGenIter over every call sequence",
                              "tlaps": proofs})
    return C.finish(prop, tier, "model_checking", viol, cov,
                    ["the base set of a script is what a plain full iteration of the same position yields (legality itself is C01)",
                     "MCIter checks the design (MoveGenImpl) against the contract; the code is bound to the contract by TraceIter"], t0)




# ---------------------------------------------------------------- C19
def check_c19(tier):
    t0 = time.time()
    prop, seed = "C19", C.seed()
    path, meta = cache_set(tier)
    rep, crash = replay_stream("replay_cache", [path], [])
    viol = []
    if crash:
        viol.append({"property": prop, "kind": "library_crashed_during_replay", "detail": crash})
        rep = {"violations": [], "counters": {}, "samples": {}}
    viol += rep_violations(rep)
    chunks, events = (16, 3000) if tier == "quick" else (32, 12000)
    v2, tv, samples = traces(prop, "TraceCache.tla", "TraceCache.cfg", [("cache", chunks, events)], seed, "cache")
    viol += v2
    proofs = run_tlaps("proofs/CacheProofs.tla")
    cov = coverage([meta], tv, {"samples": rep["samples"].get("histories", samples)[:3] or samples, "feature_counts": rep["counters"],
                                "histories_replayed_into_impl": rep["counters"].get("histories", 0),
                                "tlaps": proofs})
    return C.finish(prop, tier, "model_checking", viol, cov,
                    ["out-of-bounds access is observed, not specified: the harness builds the library with debug assertions, where a "
                     "get_unchecked outside the table aborts; an abort is reported as a violation",
                     "64-bit hashes are modelled as <<tag, index>> pairs"], t0)


# ---------------------------------------------------------------- C12 / C13
def san_sets(tier, seed):
    sim = {"num": 6 if tier == "quick" else 60, "depth": 80, "seed": seed}
    specs = [("san-roots-d1", B.K("ROOTS", 1, 0, san=True), "bfs", None),
             ("san-epw", B.K("EPw", 2, 0, san=True), "bfs", None) if tier != "quick" else
             ("san-epallw", B.K("EPALLw", 2, 0, san=True), "bfs", None),
             ("san-epb", B.K("EPb", 2, 0, san=True), "bfs", None) if tier != "quick" else
             ("san-epallb", B.K("EPALLb", 2, 0, san=True), "bfs", None),
             ("san-castle", B.K("CASTLE", 0 if tier == "quick" else 1, 1, san=True), "bfs", None),
             ("san-epbbw", B.K("EPBBw", 1, 0, san=True), "bfs", None),       # capturers pinned on a diagonal of their king
             ("san-epbbb", B.K("EPBBb", 1, 0, san=True), "bfs", None),
             ("san-kpk7w", B.K("KPK7w", 0, 3 if tier == "quick" else 0, san=True), "bfs", None),
             ("san-sim-%d" % seed, B.K("ROOTS", 999, 0, san=True), "sim", sim),
             ("san-rand-%d" % seed, B.K("RAND", 999, 8, san=True), "sim", {"num": 20 if tier == "quick" else 300, "depth": 18, "seed": seed})]
    out = []
    for name, consts, mode, s in specs:
        out.append(C.recordset("board-" + name, "MCBoard.tla", consts, mode, s, timeout=4 * 3600))
    return out


def iter_design(tier):
    consts = RawConsts({"AllSquares": "{10, 11, 12, 13, 20, 21}", "ImplSquares": "{10, 11, 12, 13, 20, 21}", "Variant": '"fixed"',
                        "MaxRemovals": 2, "MaxMasks": 3 if tier == "quick" else 4})
    inv = ("INVARIANT LenRight", "INVARIANT OwedRight", "INVARIANT NextAllowed", "INVARIANT RemoveMoveAllowed", "INVARIANT Complete")
    return run_mc("iter-design-%s" % tier, "MCIter.tla", None, consts, inv)


def cache_set(tier):
    consts = RawConsts({"ZeroTag": 0, "Sizes": "{1, 2, 4}", "NTags": 3, "MaxOps": 2 if tier == "quick" else 3, "Emit": "TRUE"})
    return C.recordset("cache-%s" % tier, "MCCache.tla", consts, "bfs", None, timeout=3600, tag="CREC", cfg_extra=("CONSTANT Key <- IdKey",))


def vocab_set():
    return C.recordset("vocab-all", "MCVocab.tla", {"Pairs": 4}, "bfs", None, tag="VREC|VORD")


def pregen(tier, seed):
    """Everything TLC derives from the specification alone (setup)."""
    san_sets(tier, seed)
    iter_design(tier)
    cache_set(tier)
    C.recordset("uci-all", "MCText.tla", {}, "bfs", None, tag="UREC")
    C.recordset("geom-all", "MCGeom.tla", RawConsts({"Mode": '"geom"', "SqSel": "{0}"}), "bfs", None, tag="GEOM")
    C.recordset("sliders-all", "MCGeom.tla", RawConsts({"Mode": '"slider"', "SqSel": ALLSQ}), "bfs", None, tag="SLID")
    vocab_set()


def check_text(prop, tier):
    t0 = time.time()
    seed = C.seed()
    viol, metas, counters, samples = [], [], {}, []
    if prop == "C13":
        path, meta = C.recordset("uci-all", "MCText.tla", {}, "bfs", None, tag="UREC")
        metas.append(meta)
        rep, crash = replay_stream("replay_text", [path], ["--props", "C13"])
    else:
        sets = []
        for path, meta in san_sets(tier, seed):
            sets.append(path)
            metas.append(meta)
        rep, crash = replay_stream("replay_text", sets, ["--props", "C12"])
    if crash:
        viol.append({"property": prop, "kind": "library_crashed_during_replay", "detail": crash})
        rep = {"violations": [], "counters": {}, "samples": {}}
    viol += rep_violations(rep)
    chunks, events = (16, 1500) if tier == "quick" else (48, 6000)
    v2, tv, tsamples = traces(prop, "TraceText.tla", "TraceText.cfg", [("text", chunks, events)], seed, "text")
    viol += v2
    cov = coverage(metas, tv, {"samples": (rep["samples"].get("uci") or rep["samples"].get("san") or tsamples)[:3],
                               "feature_counts": rep["counters"], "exhaustive": prop == "C13",
                               "exhaustive_within": "all 20480 move values and 64 squares (C13 round trips); fuzzed text is sampled"})
    return C.finish(prop, tier, "model_checking", viol, cov,
                    ["SAN spellings follow spec/Text.tla SanSpellings (FIDE Appendix C as the library documents it); texts outside "
                     "SanSpellings and SanRejects are only required not to panic and to yield legal moves"], t0)


# ---------------------------------------------------------------- C07
def check_c07(tier):
    t0 = time.time()
    prop, seed = "C07", C.seed()
    sets = B.ensure_sets(tier, seed)
    rep = B.run_replay(prop, sets, tier, seed, "none")
    viol = []
    if "crash" in rep:
        viol.append({"property": prop, "kind": "library_crashed_during_replay", "detail": {"exit": rep["crash"], "stderr": rep["stderr"]}})
        rep = {"violations": [], "counters": {}, "samples": {}}
    viol += rep_violations(rep)
    chunks, events = (16, 1200) if tier == "quick" else (64, 5000)
    v2, tv, samples = traces(prop, "TraceBuild.tla", "TraceBuild.cfg", [("validate", chunks, events)], seed, "construction")
    viol += v2
    metas = [m for (_, _, m) in sets]
    cov = coverage(metas, tv, {"samples": samples, "valid_spec_states_offered_for_acceptance": rep["counters"].get("records", 0)})
    return C.finish(prop, tier, "model_checking", viol, cov,
                    ["memory safety is observed, not specified: debug-assertion build, panics caught, aborts detected by a progress marker",
                     "acceptance of positions that satisfy Necessary but are not valid chess positions is left open (property C07)"], t0)


# ---------------------------------------------------------------- C15 / C16 (finite domains) and C20


def replay_geom(paths, bmi2, seed):
    bindir = C.build_harness(bmi2=bmi2)
    report = os.path.join(C.WORK, "replay-geom-%d-%s.json" % (os.getpid(), "bmi2" if bmi2 else "def"))
    p = C.run_on_records(paths, [os.path.join(bindir, "replay_geom"), "--seed", str(seed), "--out", report])
    if p.returncode != 0:
        return None, {"exit": p.returncode, "stderr": p.stderr[-2000:], "build": "bmi2" if bmi2 else "default"}
    rep = json.load(open(report))
    os.unlink(report)
    return rep, None


def check_c15(tier):
    t0 = time.time()
    prop, seed = "C15", C.seed()
    path, meta = C.recordset("sliders-all", "MCGeom.tla", RawConsts({"Mode": '"slider"', "SqSel": ALLSQ}), "bfs", None, tag="SLID")
    viol, counters, samples = [], {}, []
    for bmi2 in (False, True):
        rep, crash = replay_geom([path], bmi2, seed)
        if crash:
            viol.append({"property": prop, "kind": "library_crashed_during_replay", "detail": crash})
            continue
        viol += [v for v in rep_violations(rep)]
        for k, v in rep["counters"].items():
            counters[("bmi2_build_" if bmi2 else "default_build_") + k] = v
        samples = rep["samples"].get("slider", samples)
    cov = coverage([meta], {"chunks": 0, "events": 0, "generated": 0, "distinct": 0},
                   {"samples": samples[:3], "feature_counts": counters, "exhaustive": True,
                    "exhaustive_within": "64 squares x every subset of the square's rook / bishop rays (TLC enumerated 128 tables); occupancy "
                                         "off the rays: empty, full and two seeded random patterns per entry; default and +bmi2 builds",
                    "traces_note": "a stateless lookup has no traces to validate: the implementation is compared entry by entry with the TLC-enumerated table"})
    return C.finish(prop, tier, "model_checking", viol, cov,
                    ["the +bmi2 harness build regenerates the tables with build.rs on this CPU (which supports BMI2)",
                     "irrelevant squares are sampled (4 patterns per entry), not enumerated"], t0)


def check_c16(tier):
    t0 = time.time()
    prop, seed = "C16", C.seed()
    p1, m1 = C.recordset("geom-all", "MCGeom.tla", RawConsts({"Mode": '"geom"', "SqSel": "{0}"}), "bfs", None, tag="GEOM")
    p2, m2 = C.recordset("sliders-all", "MCGeom.tla", RawConsts({"Mode": '"slider"', "SqSel": ALLSQ}), "bfs", None, tag="SLID")
    rep, crash = replay_geom([p1, p2], False, seed)
    viol = []
    if crash:
        viol.append({"property": prop, "kind": "library_crashed_during_replay", "detail": crash})
        rep = {"violations": [], "counters": {}, "samples": {}}
    viol += rep_violations(rep)
    # spec growth beyond the listed properties: the small value types (module Vocab), complete tables
    p3, m3 = vocab_set()
    rep3, crash3 = replay_stream("replay_vocab", [p3], [])
    if crash3:
        viol.append({"property": "SPEC", "kind": "library_crashed_during_vocab_replay", "detail": crash3})
    else:
        viol += rep_violations(rep3)
        rep["counters"].update(rep3["counters"])
    cov = coverage([m1, m2, m3], {"chunks": 0, "events": 0, "generated": 0, "distinct": 0},
                   {"samples": rep["samples"].get("geom", [])[:3], "feature_counts": rep["counters"], "exhaustive": True,
                    "exhaustive_within": "64 squares, 4096 pairs (between, line), 2 colours, 16 step helpers, every occupancy of the squares "
                                         "relevant to a pawn (plus 3 noise patterns)"})
    return C.finish(prop, tier, "model_checking", viol, cov, ["noise on irrelevant squares is sampled"], t0)


def check_c20(tier):
    t0 = time.time()
    prop, seed = "C20", C.seed()
    chunks, events = (16, 2500) if tier == "quick" else (48, 10000)
    viol, tv, samples = traces(prop, "TraceBits.tla", "TraceBits.cfg", [("bits", chunks, events)], seed, "bitboard")
    cov = coverage([], tv, {"samples": samples, "states": max(tv["distinct"], 1), "transitions": max(tv["generated"], 1),
                            "note": "a stateless algebra: the model-checking run IS the trace validation (TLC evaluates the set-algebra "
                                    "definition of every logged operation; the iterator is a two-variable state machine)",
                            "exhaustive_within": "all 64 single squares (from_square / to_square / set) in every chunk; structured and random 64-bit values sampled"})
    return C.finish(prop, tier, "model_checking", viol, cov, ["64-bit values are logged as lists of squares"], t0)
