"""Board-family checks (C01-C06, C08, C09, C17, C18 and the valid-position part of C07):
one engine, each property owning its own mismatch kinds.

 A: TLC explores MCBoard (exhaustive material families + curated roots + simulation), printing one
    record per expanded state; the Rust replayer walks the same graph through the real library.
 B: the Rust driver records long playouts of the real library; TLC validates them against TraceBoard
    with PROP selecting the conjuncts of the property under check.
 MC: the spec-level lemmas (MCBoard.Lemma1/Lemma2) are Asserts evaluated by TLC on every expanded state.
"""
import json
import os
import shutil
import subprocess
import time
from concurrent.futures import ThreadPoolExecutor

from . import common as C

BOARD_PROPS = ["C01", "C02", "C03", "C04", "C05", "C06", "C08", "C09", "C17", "C18"]


def K(family, depth, sub=0, lemmas=0, emit=True, san=False):
    return {"Family": family, "MaxDepth": depth, "Lemmas": lemmas, "Emit": emit, "Sub": sub, "San": san}


def sets_for(tier, seed):
    """(name, constants, mode, sim) of every MCBoard run of a tier."""
    s = []
    if tier == "quick":
        s.append(("roots-d2", K("ROOTS", 2, 0, lemmas=1), "bfs", None))
        s.append(("epw-d", K("EPw", 2, 4, lemmas=1), "bfs", None))
        s.append(("epb-e", K("EPb", 2, 5, lemmas=1), "bfs", None))
        s.append(("epallw", K("EPALLw", 2, 0, lemmas=1), "bfs", None))
        s.append(("epallb", K("EPALLb", 2, 0, lemmas=1), "bfs", None))
        s.append(("ep2w-%d" % (seed % 6 + 1), K("EP2w", 1, seed % 6 + 1), "bfs", None))
        s.append(("ep2b-%d" % ((seed + 2) % 6 + 1), K("EP2b", 1, (seed + 2) % 6 + 1), "bfs", None))
        s.append(("eprrw-%d" % (seed % 8 + 1), K("EPRRw", 1, seed % 8 + 1), "bfs", None))
        s.append(("eprrb-%d" % ((seed + 4) % 8 + 1), K("EPRRb", 1, (seed + 4) % 8 + 1), "bfs", None))
        s.append(("epbbw", K("EPBBw", 1, 0), "bfs", None))
        s.append(("epbbb", K("EPBBb", 1, 0), "bfs", None))
        s.append(("epedgew", K("EPEDGEw", 2, 0, lemmas=1), "bfs", None))
        s.append(("epedgeb", K("EPEDGEb", 2, 0, lemmas=1), "bfs", None))
        s.append(("epxw-d", K("EPXw", 1, 4), "bfs", None))
        s.append(("epxb-e", K("EPXb", 1, 5), "bfs", None))
        s.append(("castle-1", K("CASTLE", 1, 1), "bfs", None))
        s.append(("rookcapw", K("ROOKCAPw", 1, 0, lemmas=1), "bfs", None))
        s.append(("rookcapb", K("ROOKCAPb", 1, 0, lemmas=1), "bfs", None))
        s.append(("kpk7w-b", K("KPK7w", 1, 2, lemmas=1), "bfs", None))
        s.append(("kpk7b-g", K("KPK7b", 1, 7, lemmas=1), "bfs", None))
        s.append(("kk", K("KK", 999, 0, lemmas=2), "bfs", None))
        s.append(("pinw-%d" % (seed % 8 + 1), K("PINw", 0, seed % 8 + 1), "bfs", None))
        s.append(("pinb-%d" % ((seed + 3) % 8 + 1), K("PINb", 0, (seed + 3) % 8 + 1), "bfs", None))
        s.append(("rand-%d" % seed, K("RAND", 999, 8), "sim", {"num": 100, "depth": 22, "seed": seed}))
        s.append(("sim-%d" % seed, K("ROOTS", 999, 0), "sim", {"num": 24, "depth": 100, "seed": seed}))
        s.append(("lemma2-roots-d1", K("ROOTS", 1, 0, lemmas=2, emit=False), "bfs", None))
        s.append(("lemma2-epxw-d", K("EPXw", 1, 4, lemmas=2, emit=False), "bfs", None))
        s.append(("lemma2-pinw-c", K("PINw", 0, 3, lemmas=2, emit=False), "bfs", None))
        s.append(("lemma2-castle-1", K("CASTLE", 0, 1, lemmas=2, emit=False), "bfs", None))
    else:
        for fam in ("KQK", "KRK", "KBK", "KNK"):
            s.append((fam.lower(), K(fam, 999, 0, lemmas=1), "bfs", None))
        s.append(("kpk-d1", K("KPK", 1, 0, lemmas=1), "bfs", None))
        s.append(("roots-d3", K("ROOTS", 3, 0, lemmas=1), "bfs", None))
        s.append(("epw", K("EPw", 2, 0, lemmas=1), "bfs", None))
        s.append(("epb", K("EPb", 2, 0, lemmas=1), "bfs", None))
        s.append(("epallw", K("EPALLw", 3, 0, lemmas=1), "bfs", None))
        s.append(("epallb", K("EPALLb", 3, 0, lemmas=1), "bfs", None))
        s.append(("ep2w", K("EP2w", 1, 0, lemmas=1), "bfs", None))
        s.append(("ep2b", K("EP2b", 1, 0, lemmas=1), "bfs", None))
        s.append(("eprrw", K("EPRRw", 1, 0), "bfs", None))
        s.append(("eprrb", K("EPRRb", 1, 0), "bfs", None))
        s.append(("epbbw", K("EPBBw", 2, 0, lemmas=1), "bfs", None))
        s.append(("epbbb", K("EPBBb", 2, 0, lemmas=1), "bfs", None))
        s.append(("epedgew", K("EPEDGEw", 3, 0, lemmas=1), "bfs", None))
        s.append(("epedgeb", K("EPEDGEb", 3, 0, lemmas=1), "bfs", None))
        s.append(("epxw", K("EPXw", 1, 0), "bfs", None))
        s.append(("epxb", K("EPXb", 1, 0), "bfs", None))
        s.append(("castle", K("CASTLE", 1, 0), "bfs", None))
        s.append(("rookcapw", K("ROOKCAPw", 2, 0, lemmas=1), "bfs", None))
        s.append(("rookcapb", K("ROOKCAPb", 2, 0, lemmas=1), "bfs", None))
        s.append(("pinw", K("PINw", 0, 0, lemmas=1), "bfs", None))
        s.append(("pinb", K("PINb", 0, 0, lemmas=1), "bfs", None))
        s.append(("rand-%d" % seed, K("RAND", 999, 8), "sim", {"num": 1500, "depth": 30, "seed": seed}))
        s.append(("rand5-%d" % seed, K("RAND", 999, 5), "sim", {"num": 1000, "depth": 40, "seed": seed + 1}))
        s.append(("kpk7w", K("KPK7w", 2, 0, lemmas=1), "bfs", None))
        s.append(("kpk7b", K("KPK7b", 2, 0, lemmas=1), "bfs", None))
        s.append(("sim-%d" % seed, K("ROOTS", 999, 0), "sim", {"num": 400, "depth": 250, "seed": seed}))
        s.append(("lemma2-roots-d2", K("ROOTS", 2, 0, lemmas=2, emit=False), "bfs", None))
        s.append(("lemma2-castle", K("CASTLE", 1, 1, lemmas=2, emit=False), "bfs", None))
        s.append(("lemma2-epw", K("EPw", 2, 4, lemmas=2, emit=False), "bfs", None))
        s.append(("lemma2-epxw", K("EPXw", 1, 2, lemmas=2, emit=False), "bfs", None))
        s.append(("lemma2-epxb", K("EPXb", 1, 6, lemmas=2, emit=False), "bfs", None))
        s.append(("lemma2-ep2w", K("EP2w", 1, 0, lemmas=2, emit=False), "bfs", None))
        s.append(("lemma2-pinw", K("PINw", 0, 0, lemmas=2, emit=False), "bfs", None))
        s.append(("lemma2-kpk7b", K("KPK7b", 0, 0, lemmas=2, emit=False), "bfs", None))
    return s


def ensure_sets(tier, seed):
    out = []
    for name, consts, mode, sim in sets_for(tier, seed):
        path, meta = C.recordset("board-" + name, "MCBoard.tla", consts, mode, sim, timeout=6 * 3600)
        out.append((name, path, meta))
    return out


def run_replay(prop, sets, tier, seed, sweep):
    bindir = C.build_harness()
    paths = [p for (_, p, m) in sets if m["records"] > 0]
    report = os.path.join(C.WORK, "replay-%s-%s-%d.json" % (prop, tier, os.getpid()))
    cmd = [os.path.join(bindir, "replay"), "--props", prop, "--sweep", sweep, "--seed", str(seed), "--out", report,
           "--threads", str(C.NCPU)]
    p = C.run_on_records(paths, cmd)
    if p.returncode == 2 or (p.returncode != 0 and not os.path.exists(report)):
        if p.returncode < 0 or p.returncode >= 128 or p.returncode not in (0, 2):
            # the library aborted (debug-build UB check) or crashed while replaying valid spec states
            return {"crash": p.returncode, "stderr": p.stderr[-2000:]}
        raise C.ToolError("replayer failed: rc=%d %s" % (p.returncode, p.stderr[-2000:]))
    if p.returncode != 0:
        return {"crash": p.returncode, "stderr": p.stderr[-2000:]}
    with open(report) as f:
        rep = json.load(f)
    os.unlink(report)
    return rep


def validate_chunk(module, cfg, trace, prop, idx, extra_env=None):
    meta = os.path.join(C.WORK, "tv-%d-%d" % (os.getpid(), idx))
    env = C.java_env("-Xss1g -Dtlc2.tool.queue.IStateQueue=StateDeque")
    env["TRACE"] = trace
    env["PROP"] = prop
    if extra_env:
        env.update(extra_env)
    cmd = ["timeout", "900"] + C.tlc_cmd(os.path.join(C.SPEC, module), os.path.join(C.SPEC, cfg), 1, meta, xmx="3g")
    p = subprocess.run(cmd, cwd=C.SPEC, env=env, stdout=subprocess.PIPE, stderr=subprocess.STDOUT, text=True)
    shutil.rmtree(meta, ignore_errors=True)
    out = p.stdout
    res = {"trace": trace, "accepted": False, "line": None, "generated": 0, "distinct": 0, "tool_error": None}
    for ln in out.splitlines():
        if "TRACE-ACCEPTED" in ln:
            res["accepted"] = True
        if "TRACE-REJECTED-AT-LINE" in ln:
            parts = ln.replace("<<", "").replace(">>", "").split(",")
            res["line"] = int(parts[1])
        m = C.TLC_STATS.match(ln)
        if m:
            res["generated"], res["distinct"] = int(m.group(1)), int(m.group(2))
    if not res["accepted"] and res["line"] is None:
        res["tool_error"] = out[-3000:]
    return res


def validate_traces(module, cfg, traces, prop, extra_env=None):
    with ThreadPoolExecutor(max_workers=C.NCPU) as ex:
        return list(ex.map(lambda t: validate_chunk(module, cfg, t[1], prop, t[0], extra_env), enumerate(traces)))


def record_traces(mode, seed, chunks, events, extra=()):
    bindir = C.build_harness()
    outdir = os.path.join(C.WORK, "traces-%s-%d" % (mode, os.getpid()))
    shutil.rmtree(outdir, ignore_errors=True)
    os.makedirs(outdir)
    p = subprocess.run([os.path.join(bindir, "record"), mode, "--seed", str(seed), "--chunks", str(chunks), "--events", str(events),
                        "--outdir", outdir] + list(extra), stdout=subprocess.PIPE, stderr=subprocess.PIPE, text=True)
    files = sorted(os.path.join(outdir, f) for f in os.listdir(outdir) if f.endswith(".ndjson"))
    return outdir, files, p.returncode, p.stderr[-2000:]


def trace_violations(prop, results, what):
    """Turn rejected chunks into violations; keep the trace next to the replay file."""
    viol = []
    for r in results:
        if r["tool_error"]:
            raise C.ToolError("TLC failed while validating %s: %s" % (r["trace"], r["tool_error"]))
        if not r["accepted"]:
            keep = os.path.join(C.REPLAYS, "%s-trace-%s" % (prop, os.path.basename(r["trace"])))
            shutil.copy(r["trace"], keep)
            with open(r["trace"]) as f:
                lines = f.readlines()
            ev = json.loads(lines[r["line"] - 1]) if r["line"] and r["line"] <= len(lines) else None
            brief = {k: ev[k] for k in ev if k in ("event", "m", "fen", "text", "ok", "op", "args", "ret", "status", "len", "panic")} if ev else None
            viol.append({"property": prop, "kind": "trace_rejected_" + what,
                         "detail": {"trace": keep, "first_unmatched_line": r["line"], "event": brief},
                         "replay": {"cmd": "check replay", "trace": keep, "line": r["line"]}})
    return viol


def check(prop, tier):
    t0 = time.time()
    seed = C.seed()
    sets = ensure_sets(tier, seed)
    sweep = "sel"
    rep = run_replay(prop, sets, tier, seed, sweep)
    violations = []
    if "crash" in rep:
        violations.append({"property": prop, "kind": "library_crashed_during_replay",
                           "detail": {"exit": rep["crash"], "stderr": rep["stderr"]}})
        rep = {"violations": [], "counters": {}, "samples": {}}
    for v in rep["violations"]:
        for ex in v["examples"][:3]:
            violations.append({"property": v["property"], "kind": v["kind"], "count": v["count"], "detail": ex})
    # direction B
    tv = {"chunks": 0, "events": 0, "generated": 0, "distinct": 0}
    if prop in ("C01", "C02", "C03", "C04", "C05", "C06", "C08", "C09", "C18"):
        chunks, events = (16, 250) if tier == "quick" else (64, 1500)
        if prop in ("C01", "C02", "C04"):
            events = events  # full rule evaluation per event
        outdir, files, rc, err = record_traces("board", seed, chunks, events)
        if rc != 0:
            violations.append({"property": prop, "kind": "library_crashed_while_recording", "detail": {"exit": rc, "stderr": err}})
        results = validate_traces("TraceBoard.tla", "TraceBoard.cfg", files, prop)
        violations += trace_violations(prop, results, "board")
        tv["chunks"] = len(results)
        tv["events"] = sum(sum(1 for _ in open(f)) for f in files)
        tv["generated"] = sum(r["generated"] for r in results)
        tv["distinct"] = sum(r["distinct"] for r in results)
        shutil.rmtree(outdir, ignore_errors=True)
    if prop in ("C01", "C03", "C04", "C18"):
        # mined positions: random placements in which the outcome hangs on one or two moves (see record.rs: mine_chunk)
        chunks3, events3 = (16, 150) if tier == "quick" else (48, 600)
        outdir, files, rc, err = record_traces("mine", seed + 9, chunks3, events3)
        if rc != 0:
            violations.append({"property": prop, "kind": "library_crashed_while_mining", "detail": {"exit": rc, "stderr": err}})
        results = validate_traces("TraceBoard.tla", "TraceBoard.cfg", files, prop)
        violations += trace_violations(prop, results, "mined")
        tv["chunks"] += len(results)
        tv["events"] += sum(sum(1 for _ in open(f)) for f in files)
        tv["generated"] += sum(r["generated"] for r in results)
        tv["distinct"] += sum(r["distinct"] for r in results)
        shutil.rmtree(outdir, ignore_errors=True)
    if prop == "C06":
        # the unvalidated builder renders and re-parses arbitrary states the same way (TraceBuild, BuilderState events)
        chunks2, events2 = (8, 900) if tier == "quick" else (32, 4000)
        outdir, files, rc, err = record_traces("validate", seed + 5, chunks2, events2)
        results = validate_traces("TraceBuild.tla", "TraceBuild.cfg", files, prop)
        violations += trace_violations(prop, results, "builder")
        tv["chunks"] += len(results)
        tv["events"] += sum(sum(1 for _ in open(f)) for f in files)
        tv["generated"] += sum(r["generated"] for r in results)
        tv["distinct"] += sum(r["distinct"] for r in results)
        shutil.rmtree(outdir, ignore_errors=True)
    cnt = rep["counters"]
    # non-vacuity: the run must have met the features the properties talk about
    if cnt:
        missing = [k for k in ("castling_moves", "en_passant_captures", "promotion_moves", "states_in_double_check", "states_with_pins",
                               "checkmates", "stalemates", "transposition_arrivals", "states_with_en_passant", "edges_with_en_passant_dont_care")
                   if cnt.get(k, 0) == 0]
        if missing:
            raise C.ToolError("vacuous run: no %s among the explored states" % ", ".join(missing))
    exhaustive_sets = [n for (n, _, m) in sets if m["mode"] == "bfs"]
    coverage = {
        # simulation runs do not deduplicate: count the states they visited (= records printed), not the successors generated
        "states": sum((m["records"] if m["mode"] == "sim" else m["tlc_distinct_states"]) for (_, _, m) in sets) + tv["distinct"],
        "transitions": sum(m["tlc_states_generated"] for (_, _, m) in sets) + tv["generated"],
        "traces_validated_against_impl": tv["chunks"],
        "trace_events_validated": tv["events"],
        "spec_records_replayed_into_impl": cnt.get("records", 0),
        "edges_replayed": cnt.get("edges", 0),
        "samples": rep["samples"].get("states", [])[:3] or [{"note": "no state sample"}],
        "exhaustive": False,
        "exhaustive_within": "each bfs model is explored completely by TLC (no state constraint): " + ", ".join(exhaustive_sets),
        "models": [{"name": n, "constants": m["constants"], "mode": m["mode"], "sim": m["sim"], "records": m["records"],
                    "tlc_states_generated": m["tlc_states_generated"], "tlc_distinct_states": m["tlc_distinct_states"],
                    "generated_in_s": m["wall_s"]} for (n, _, m) in sets],
        "feature_counts": cnt,
        "records_source": "TLC output is a function of the specification only and is cached under work/recs keyed by the spec hash; "
                          "the replay against /repo's working tree and the trace validation ran in this invocation",
    }
    assumptions = [
        "TLC 1.8.0 evaluates the TLA+ definitions correctly; the rules are anchored to published perft numbers (spec/Anchors.tla)",
        "the projection (harness/src/lib.rs: proj) reads the public API verbatim",
    ]
    return C.finish(prop, tier, "model_checking", violations, coverage, assumptions, t0)
