"""Validate the specification itself against published perft numbers (spec/Anchors.tla)."""
import os
import subprocess
import time
from . import common as C


def run(deep):
    cfg = os.path.join(C.SPEC, "AnchorsDeep.cfg" if deep else "Anchors.cfg")
    meta = os.path.join(C.WORK, "anchors-%d" % os.getpid())
    t0 = time.time()
    p = subprocess.run(["timeout", "3600"] + C.tlc_cmd(os.path.join(C.SPEC, "Anchors.tla"), cfg, 1, meta), cwd=C.SPEC,
                       stdout=subprocess.PIPE, stderr=subprocess.STDOUT, text=True, env=C.java_env())
    ok = p.returncode == 0 and "No error has been found" in p.stdout
    C.log("anchors (%s): %s in %.0fs" % ("deep" if deep else "shallow", "ok" if ok else "FAILED", time.time() - t0))
    if not ok:
        print(p.stdout[-3000:])
        return 2
    return 0
