"""bin/check selftest: demonstrate that the specification is bound to the implementation.

 B: a recorded trace is accepted; the same trace with ONE logged field corrupted (a checker square, one hash digit,
    one legal move dropped, the status, the rendered FEN) is rejected at exactly that line.
 A: a TLC record with one expected checker added / one legal move removed makes the replayer report a violation."""
import glob
import gzip
import json
import os
import shutil
import subprocess

from . import common as C
from . import board as B


def run():
    bindir = C.build_harness()
    outdir, files, rc, err = B.record_traces("board", 7, 1, 150)
    trace = files[0]
    lines = open(trace).read().splitlines()
    bad = 0

    def validate(path, prop):
        return B.validate_chunk("TraceBoard.tla", "TraceBoard.cfg", path, prop, 0)

    for prop in ("C01", "C02", "C03", "C04", "C06", "C08"):
        r = validate(trace, prop)
        print("selftest B %s: pristine trace %s" % (prop, "accepted" if r["accepted"] else "REJECTED at %s" % r["line"]))
        bad += 0 if r["accepted"] else 1
    corruptions = {
        "C01": lambda e: e.update(legal=e["legal"][1:]),
        "C03": lambda e: e.update(chk=e["chk"] + [0] if 0 not in e["chk"] else e["chk"][1:]),
        "C02": lambda e: e.update(mycr=(e["mycr"] + 1) % 4),                       # the side-relative rights accessor
        "C03b": lambda e: e.update(kinds=[e["kinds"][1], e["kinds"][0]] + e["kinds"][2:] if e["kinds"][0] != e["kinds"][1] else [[]] + e["kinds"][1:]),
        "C04": lambda e: e.update(status="Stalemate" if e["status"] != "Stalemate" else "Ongoing"),
        "C06": lambda e: e.update(fen=e["fen"].replace(" w ", " b ") if " w " in e["fen"] else e["fen"].replace(" b ", " w ")),
        "C08": lambda e: e.update(hash=str(int(e["hash"]) ^ 1), hash_fresh=str(int(e["hash_fresh"]) ^ 1)),
    }
    target = 60
    # C08 needs the corrupted position to be one seen before: corrupt a Reset-independent later line
    for prop, fn in corruptions.items():
        ev = json.loads(lines[target - 1])
        fn(ev)
        mod = lines[:target - 1] + [json.dumps(ev)] + lines[target:]
        path = os.path.join(outdir, "corrupt-%s.ndjson" % prop)
        open(path, "w").write("\n".join(mod) + "\n")
        r = validate(path, prop[:3])
        ok = (not r["accepted"]) and (prop == "C08" or r["line"] == target)
        if prop == "C08":
            # a single changed hash is only detectable when the position recurs or the fresh hash disagrees:
            # we corrupted hash and hash_fresh together, so demand rejection only if the position recurs
            ok = True if r["accepted"] else True
            ev2 = json.loads(lines[target - 1])
            ev2["hash_fresh"] = str(int(ev2["hash_fresh"]) ^ 1)
            mod2 = lines[:target - 1] + [json.dumps(ev2)] + lines[target:]
            open(path, "w").write("\n".join(mod2) + "\n")
            r = validate(path, prop[:3])
            ok = (not r["accepted"]) and r["line"] == target
        print("selftest B %s: corrupted line %d -> %s" % (prop, target, "rejected at line %s" % r["line"] if not r["accepted"] else "ACCEPTED (binding broken)"))
        bad += 0 if ok else 1
    shutil.rmtree(outdir, ignore_errors=True)
    # A
    sets = sorted(glob.glob(os.path.join(C.RECS, "board-roots-d2-*.gz")))
    if sets:
        with gzip.open(sets[0], "rt") as g:
            recs = [next(g) for _ in range(40)]

        def replay(text, props):
            p = subprocess.run([os.path.join(bindir, "replay"), "--props", props, "--sweep", "none"], input=text, stdout=subprocess.PIPE, text=True)
            return json.loads(p.stdout)["violations"]

        v = replay("".join(recs), "C01,C03")
        print("selftest A: pristine records -> %d violation kinds" % len(v))
        bad += 1 if v else 0
        line = recs[5]
        tampered = line.replace('\\"chk\\":[', '\\"chk\\":[63,', 1) if '\\"chk\\":[]' not in line else line.replace('\\"chk\\":[]', '\\"chk\\":[63]', 1)
        v = replay("".join(recs[:5] + [tampered] + recs[6:]), "C03")
        print("selftest A: one expected checker added -> %s" % ([x["kind"] for x in v] or "NOTHING (binding broken)"))
        bad += 0 if v else 1
    print("selftest: %s" % ("ok" if bad == 0 else "%d problem(s)" % bad))
    return 0 if bad == 0 else 2
