"""Which engine decides which property."""
from . import common as C


def run(prop, tier):
    from . import board
    if prop in board.BOARD_PROPS:
        return board.check(prop, tier)
    if prop in ("C10", "C11"):
        from . import game
        return game.check(prop, tier)
    raise C.ToolError("no check registered for %s" % prop)
