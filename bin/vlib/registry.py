"""Which engine decides which property."""
from . import common as C


def run(prop, tier):
    from . import board
    if prop in board.BOARD_PROPS:
        return board.check(prop, tier)
    if prop in ("C10", "C11"):
        from . import game
        return game.check(prop, tier)
    if prop in ("C07", "C12", "C13", "C14", "C19"):
        from . import simple
        if prop == "C14":
            return simple.check_c14(tier)
        if prop == "C19":
            return simple.check_c19(tier)
        if prop == "C07":
            return simple.check_c07(tier)
        return simple.check_text(prop, tier)
    raise C.ToolError("no check registered for %s" % prop)
