"""Which engine decides which property."""
from . import common as C


def run(prop, tier):
    from . import board
    if prop in board.BOARD_PROPS:
        return board.check(prop, tier)
    if prop in ("C10", "C11"):
        from . import game
        return game.check(prop, tier)
    if prop in ("C07", "C12", "C13", "C14", "C19"):
        from . import simple
        if prop == "C14":
            return simple.check_c14(tier)
        if prop == "C19":
            return simple.check_c19(tier)
        if prop == "C07":
            return simple.check_c07(tier)
        return simple.check_text(prop, tier)
    if prop in ("C15", "C16", "C20"):
        from . import simple
        return {"C15": simple.check_c15, "C16": simple.check_c16, "C20": simple.check_c20}[prop](tier)
    raise C.ToolError("no check registered for %s" % prop)
