"""check replay <path>: re-run the case a VIOLATION line points at, against /repo's current working tree."""
import glob
import gzip
import json
import os
import subprocess

from . import common as C
from . import board as B

TRACE_SPECS = {"board": ("TraceBoard.tla", "TraceBoard.cfg"), "game": ("TraceGame.tla", "TraceGame.cfg"),
               "claims": ("TraceGame.tla", "TraceGame.cfg"), "iter": ("TraceIter.tla", "TraceIter.cfg"),
               "cache": ("TraceCache.tla", "TraceCache.cfg"), "text": ("TraceText.tla", "TraceText.cfg"),
               "validate": ("TraceBuild.tla", "TraceBuild.cfg"), "bits": ("TraceBits.tla", "TraceBits.cfg")}


def run(path):
    d = json.load(open(path))
    prop, det = d["property"], d["detail"]
    if "trace" in det:
        base = os.path.basename(det["trace"]).split("-trace-")[-1]
        mode = base.split("-")[0]
        module, cfg = TRACE_SPECS[mode]
        r = B.validate_chunk(module, cfg, det["trace"], prop, 0)
        print("trace %s: %s" % (det["trace"], "accepted" if r["accepted"] else "rejected at line %s" % r["line"]))
        if r["accepted"]:
            print("note: the recorded trace is accepted by the current specification (a trace is a recording; re-record with the check itself)")
        return 0 if r["accepted"] else 1
    key = det.get("fen") or det.get("std") or (det.get("ctx") or {}).get("start") or det.get("start")
    if not key:
        print(json.dumps(d, indent=1))
        return 0
    needle = key.replace('"', '\\"')
    lines = []
    for f in sorted(glob.glob(os.path.join(C.RECS, "*.gz"))):
        with gzip.open(f, "rt") as g:
            for ln in g:
                if needle in ln:
                    lines.append(ln)
                    if len(lines) >= 50:
                        break
        if lines:
            break
    if not lines:
        print("no cached TLC record mentions %s; regenerate with bin/check %s" % (key, prop))
        return 2
    bindir = C.build_harness()
    binary = {"C10": "replay_game", "C11": "replay_game", "C12": "replay_text", "C13": "replay_text", "C19": "replay_cache"}.get(prop, "replay")
    args = ["--props", prop] if binary in ("replay", "replay_text") else []
    p = subprocess.run([os.path.join(bindir, binary)] + args, input="".join(lines), stdout=subprocess.PIPE, stderr=subprocess.PIPE, text=True)
    rep = json.loads(p.stdout) if p.stdout.strip().startswith("{") else {"violations": []}
    mine = [v for v in rep["violations"] if v["property"] == prop]
    for v in mine:
        print("still violated: %s x%d e.g. %s" % (v["kind"], v["count"], json.dumps(v["examples"][0])[:600]))
    if not mine:
        print("not reproduced on the current tree (%d record(s) replayed)" % len(lines))
    return 1 if mine else 0
