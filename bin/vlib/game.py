"""C10 (game protocol) and C11 (draw claims).

 MC: TLC explores MCGame exhaustively (all interleavings of move attempts - legal and illegal -, offers,
     accepts, resignations, declarations to a bounded log length from seven tiny roots, FiftyLimit scaled
     down) checking LogFaithful, ResultRight, ClaimAgrees (operational = declarative claim) as Asserts and
     ResultFinal, LogGrows as temporal properties.
 A:  every explored history is rebuilt in the real Game and every further action is probed on a clone.
 B:  random / adversarial drivers (protocol storms; long reversible shuffles with repetitions, castling
     rights given up midway, the 99/100/101 boundary) are validated by TraceGame with FiftyLimit = 100.
"""
import json
import os
import shutil
import subprocess
import time

from . import common as C
from . import board as B

EXTRA = ("VIEW View", "PROPERTY ResultFinal", "PROPERTY LogGrows")


def sets_for(tier):
    if tier == "quick":
        return [("protocol-5", {"FiftyLimit": 4, "MaxLen": 5, "Mode": "protocol", "Emit": True, "MaxLegal": 3}),
                ("claims-10", {"FiftyLimit": 6, "MaxLen": 10, "Mode": "claims", "Emit": True, "MaxLegal": 2})]
    return [("protocol-6", {"FiftyLimit": 4, "MaxLen": 6, "Mode": "protocol", "Emit": True, "MaxLegal": 3}),
            ("claims-12", {"FiftyLimit": 6, "MaxLen": 12, "Mode": "claims", "Emit": True, "MaxLegal": 2}),
            ("claims-9-8", {"FiftyLimit": 8, "MaxLen": 9, "Mode": "claims", "Emit": True, "MaxLegal": 3})]


def ensure_sets(tier):
    out = []
    for name, consts in sets_for(tier):
        path, meta = C.recordset("game-" + name, "MCGame.tla", consts, "bfs", None, timeout=4 * 3600, tag="GREC", cfg_extra=EXTRA)
        out.append((name, path, meta))
    return out


def check(prop, tier):
    t0 = time.time()
    seed = C.seed()
    sets = ensure_sets(tier)
    bindir = C.build_harness()
    report = os.path.join(C.WORK, "replay-game-%s-%d.json" % (prop, os.getpid()))
    p = C.run_on_records([p for (_, p, _) in sets], [os.path.join(bindir, "replay_game"), "--out", report])
    violations = []
    if p.returncode != 0:
        if p.returncode == 2:
            raise C.ToolError("replay_game failed: " + p.stderr[-2000:])
        violations.append({"property": prop, "kind": "library_crashed_during_replay", "detail": {"exit": p.returncode, "stderr": p.stderr[-2000:]}})
        rep = {"violations": [], "counters": {}, "samples": {}}
    else:
        rep = json.load(open(report))
        os.unlink(report)
    for v in rep["violations"]:
        for ex in v["examples"][:3]:
            violations.append({"property": v["property"], "kind": v["kind"], "count": v["count"], "detail": ex})
    # B
    chunks, events = (16, 1500) if tier == "quick" else (48, 4000)
    modes = ["game", "claims"] if prop == "C10" else ["claims", "game"]
    files_all, dirs = [], []
    for i, mode in enumerate(modes):
        n = chunks * 3 // 4 if i == 0 else chunks - chunks * 3 // 4
        outdir, files, rc, err = B.record_traces(mode, seed + i, n, events)
        dirs.append(outdir)
        if rc != 0:
            violations.append({"property": prop, "kind": "library_crashed_while_recording", "detail": {"exit": rc, "stderr": err}})
        files_all += files
    results = B.validate_traces("TraceGame.tla", "TraceGame.cfg", files_all, prop)
    violations += B.trace_violations(prop, results, "game")
    nev = sum(sum(1 for _ in open(f)) for f in files_all)
    for d in dirs:
        shutil.rmtree(d, ignore_errors=True)
    cnt = rep["counters"]
    coverage = {
        "states": sum(m["tlc_distinct_states"] for (_, _, m) in sets) + sum(r["distinct"] for r in results),
        "transitions": sum(m["tlc_states_generated"] for (_, _, m) in sets) + sum(r["generated"] for r in results),
        "traces_validated_against_impl": len(results),
        "trace_events_validated": nev,
        "histories_replayed_into_impl": cnt.get("histories", 0),
        "probes_on_clones": cnt.get("probes", 0),
        "samples": rep["samples"].get("histories", [])[:3] or [{"note": "no sample"}],
        "exhaustive": False,
        "exhaustive_within": "MCGame models are explored completely up to MaxLen with at most MaxLegal legal moves per state",
        "models": [{"name": n, "constants": m["constants"], "records": m["records"], "tlc_states_generated": m["tlc_states_generated"],
                    "tlc_distinct_states": m["tlc_distinct_states"], "generated_in_s": m["wall_s"]} for (n, _, m) in sets],
        "feature_counts": cnt,
    }
    if prop == "C10":
        from .simple import run_tlaps
        coverage["tlaps"] = run_tlaps("proofs/GameProofs.tla")
    assumptions = ["MCGame scales the fifty-move limit down (FiftyLimit 4-8) - the real limit of 100 is exercised by trace validation only",
                   "positions of a game are compared with the library's recorded en-passant field for 'must' and with legal en-passant captures for 'may'"]
    return C.finish(prop, tier, "model_checking", violations, coverage, assumptions, t0)
